#!/bin/bash
# usage: confirm_seed2.sh <seed_out dir> <A|B> <seed_id>
# Confirms a second-wave seeded change in a scratch worktree of /repo's HEAD (the repaired tree):
# demo passes without the change, package builds with it, demo fails with it, the full unedited suite passes with it.
set -u
src=$1; v=$2; id=$3
wt=/tmp/confirm_$id
rm -rf $wt; git -C /repo worktree prune
git -C /repo worktree add -q --detach $wt HEAD || exit 3
cd $wt
res=/tmp/confirm_$id.result
echo "seed $id" > $res
if ! git apply --check $src/$v.diff 2>>$res; then echo "PATCH_DOES_NOT_APPLY" >> $res; cd /; git -C /repo worktree remove --force $wt; exit 1; fi
cp $src/seed_demo_${v}_test.go $wt/zz_seed_demo_test.go
run=$(jq -r .demo_test $src/$v.json 2>/dev/null | sed 's/[^A-Za-z0-9_].*//')
[ -z "$run" -o "$run" = null ] && run=TestSeed2
if go test -mod=mod -vet=off -count=1 -timeout 180s -run "^$run" . >/tmp/confirm_$id.base.log 2>&1; then echo "DEMO_PASSES_ON_BASE=yes" >> $res; else echo "DEMO_PASSES_ON_BASE=no" >> $res; fi
git apply $src/$v.diff
if go build -mod=mod ./... >/tmp/confirm_$id.build.log 2>&1; then echo "BUILDS=yes" >> $res; else echo "BUILDS=no" >> $res; fi
if go test -mod=mod -vet=off -count=1 -timeout 180s -run "^$run" . >/tmp/confirm_$id.mut.log 2>&1; then echo "DEMO_FAILS_WITH_PATCH=no" >> $res; else echo "DEMO_FAILS_WITH_PATCH=yes" >> $res; fi
rm -f $wt/zz_seed_demo_test.go
ok=no
for i in 1 2 3; do
  if go test -mod=mod -vet=off -count=1 -timeout 25m ./... >/tmp/confirm_$id.suite.log 2>&1; then ok=yes; break; fi
done
echo "SUITE_PASSES_WITH_PATCH=$ok" >> $res
grep -E "^(--- FAIL|FAIL)" /tmp/confirm_$id.suite.log | head -5 >> $res
cd /
git -C /repo worktree remove --force $wt
cat $res
