#!/bin/bash
# usage: confirm_seed4.sh <Cxx> [outdir=/tmp/w6out]
# Confirms a fourth-wave seeded change in a scratch worktree of /repo's HEAD: patch touches non-test source only,
# demo passes without the change, package builds with it, demo fails with it, the full unedited suite passes with it.
set -u
export PATH=/opt/veriftools/go1.26.8/bin:$PATH GOFLAGS=-mod=mod GOPROXY=off GOSUMDB=off GOTOOLCHAIN=local
id=$1; src=${2:-/tmp/w6out}/$id
wt=/tmp/confirm6_$id
rm -rf $wt; git -C /repo worktree prune
git -C /repo worktree add -q --detach $wt HEAD || exit 3
cd $wt
res=/tmp/confirm6_$id.result
echo "seed $id" > $res
echo "FILES=$(grep '^+++ b/' $src/patch.diff | sed 's/+++ b\///' | tr '\n' ' ')" >> $res
if grep '^+++ b/' $src/patch.diff | grep -q -E '_test\.go|verif_contracts'; then echo "TOUCHES_TESTS_OR_CONTRACTS" >> $res; fi
if ! git apply --check $src/patch.diff 2>>$res; then echo "PATCH_DOES_NOT_APPLY" >> $res; cd /; git -C /repo worktree remove --force $wt; cat $res; exit 1; fi
cp $src/demo_test.go $wt/zz_seed_demo_test.go
run=TestSeed6_$id
if unshare -rn bash -c "ip link set lo up; go test -vet=off -count=1 -timeout 300s -run '^$run' ." >/tmp/confirm6_$id.base.log 2>&1; then echo "DEMO_PASSES_ON_BASE=yes" >> $res; else echo "DEMO_PASSES_ON_BASE=no" >> $res; fi
git apply $src/patch.diff
if go build ./... >/tmp/confirm6_$id.build.log 2>&1; then echo "BUILDS=yes" >> $res; else echo "BUILDS=no" >> $res; fi
if unshare -rn bash -c "ip link set lo up; go test -vet=off -count=1 -timeout 300s -run '^$run' ." >/tmp/confirm6_$id.mut.log 2>&1; then echo "DEMO_FAILS_WITH_PATCH=no" >> $res; else echo "DEMO_FAILS_WITH_PATCH=yes" >> $res; fi
rm -f $wt/zz_seed_demo_test.go
ok=no
for i in 1 2 3; do
  # a private network namespace: concurrent suite runs otherwise collide on the fixed 127.0.0.x:7946 addresses
  if unshare -rn bash -c 'ip link set lo up; go test -vet=off -count=1 -timeout 25m ./...' >/tmp/confirm6_$id.suite.log 2>&1; then ok=yes; break; fi
done
echo "SUITE_PASSES_WITH_PATCH=$ok" >> $res
grep -E "^(--- FAIL|FAIL)" /tmp/confirm6_$id.suite.log | head -5 >> $res
cd /
git -C /repo worktree remove --force $wt
cat $res
