#!/bin/bash
# usage: reconfirm5.sh <Cxx> demo|suite  -- repeats one step of confirm_seed5.sh inside a private network namespace
export PATH=/opt/veriftools/go1.26.8/bin:$PATH GOFLAGS=-mod=mod GOPROXY=off GOSUMDB=off GOTOOLCHAIN=local
id=$1; what=$2; src=/tmp/w6out/$id; wt=/tmp/reconfirm6_$id
rm -rf $wt; git -C /repo worktree prune; git -C /repo worktree add -q --detach $wt HEAD || exit 3
cd $wt
if [ $what = demo ]; then
  cp $src/demo_test.go zz_seed_demo_test.go
  if unshare -rn bash -c "ip link set lo up; go test -vet=off -count=1 -timeout 300s -run '^TestSeed6_$id' ." > /tmp/reconfirm6_$id.base.log 2>&1; then echo "$id DEMO_PASSES_ON_BASE=yes"; else echo "$id DEMO_PASSES_ON_BASE=no"; fi
  git apply $src/patch.diff
  if unshare -rn bash -c "ip link set lo up; go test -vet=off -count=1 -timeout 300s -run '^TestSeed6_$id' ." > /tmp/reconfirm6_$id.mut.log 2>&1; then echo "$id DEMO_FAILS_WITH_PATCH=no"; else echo "$id DEMO_FAILS_WITH_PATCH=yes"; fi
else
  git apply $src/patch.diff
  ok=no
  for i in 1 2 3 4 5; do
    if unshare -rn bash -c 'ip link set lo up; go test -vet=off -count=1 -timeout 25m ./...' > /tmp/reconfirm6_$id.suite.log 2>&1; then ok=yes; break; fi
  done
  echo "$id SUITE_PASSES_WITH_PATCH=$ok $(grep -E '^--- FAIL' /tmp/reconfirm6_$id.suite.log | head -3 | tr '\n' ' ')"
fi
cd /; git -C /repo worktree remove --force $wt
