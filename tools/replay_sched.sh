#!/bin/bash
# usage: replay_sched.sh <replay test file> <TestName> <source file> <function> <anchor text> <point name> [repo]
# Schedule-hook replay: overlays <source file> with a copy in which a call `gvcSched("<point>")` is inserted
# right after the first line containing <anchor text> inside <function>, and injects the replay test.
export PATH=/opt/veriftools/go1.26.8/bin:$PATH GOFLAGS=-mod=mod GOPROXY=off GOSUMDB=off GOTOOLCHAIN=local
f=$1; t=$2; src=$3; fn=$4; anchor=$5; point=$6; repo=${7:-/repo}
tmp=$(mktemp -d /tmp/sched_XXXXXX)
python3 - "$repo/$src" "$fn" "$anchor" "$point" > $tmp/$src <<'PY'
import sys,re
path,fn,anchor,point=sys.argv[1:5]
lines=open(path).read().split('\n')
out=[];infn=False;done=False
for l in lines:
    out.append(l)
    if re.match(r'func (\([^)]*\) )?'+re.escape(fn)+r'\(', l): infn=True
    elif infn and l.startswith('}'): infn=False
    if infn and not done and anchor in l:
        out.append('\tgvcSched("'+point+'")'); done=True
if not done: sys.stderr.write("anchor not found\n"); sys.exit(3)
print('\n'.join(out))
PY
[ $? -eq 0 ] || { rm -rf $tmp; exit 3; }
cat > $tmp/hook.go <<'GO'
package memberlist

var gvcSchedHook func(point string)

func gvcSched(point string) {
	if gvcSchedHook != nil {
		gvcSchedHook(point)
	}
}
GO
echo "{\"Replace\": {\"$repo/zz_gvc_replay_test.go\": \"$f\", \"$repo/$src\": \"$tmp/$src\", \"$repo/zz_gvc_hook.go\": \"$tmp/hook.go\"}}" > $tmp/ov.json
cd $repo && go test -overlay $tmp/ov.json -vet=off -count=1 -timeout 60s -run "^$t\$" . 2>&1
rc=$?
rm -rf $tmp
exit $rc
