#!/usr/bin/env python3
# usage: extract_obl.py <script.smt2> <obligation-name-substring> <out.smt2>
# builds a standalone query for one obligation (context = everything before it, with earlier obligations assumed)
import sys
lines=open(sys.argv[1]).read().split('\n')
target=None
for idx,l in enumerate(lines):
    if 'OBLIGATION' in l and sys.argv[2] in l: target=idx; break
out=[];skip=False
i=0
while i<target:
    l=lines[i]
    if l.startswith('(push'):
        # skip until pop
        while not lines[i].startswith('(pop'): i+=1
        i+=1; continue
    if l.startswith('(echo'): i+=1; continue
    out.append(l); i+=1
j=target
while not lines[j].startswith('(pop'):
    out.append(lines[j]); j+=1
open(sys.argv[3],'w').write('\n'.join(out)+'\n')
