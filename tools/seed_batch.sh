#!/bin/bash
# usage: seed_batch.sh [seed ids...]   -- runs every seeded change of /verif/seeded against the check of its own property
# in a scratch clone of /repo (committed state) with a scratch verif dir, so /repo and /verif/evidence stay untouched.
S=$(mktemp -d /tmp/seedrepo.XXXXXX); V=$(mktemp -d /tmp/seedverif.XXXXXX)
rmdir $S; git clone -q /repo $S || exit 2
mkdir -p $V; cp /verif/known_findings.json $V/; ln -s /verif/tools $V/tools; ln -s /verif/replay $V/replay
ids="$@"; [ -z "$ids" ] && ids=$(ls /verif/seeded)
for id in $ids; do
  d=/verif/seeded/$id; p=${id:0:3}
  pf=$d/patch.diff; [ -f $d/patch.rebased.diff ] && pf=$d/patch.rebased.diff
  if ! git -C $S apply $RFLAG $pf 2>/dev/null; then echo "$id APPLY-FAILED"; continue; fi
  out=$(cd /verif && ./bin/gvc check $p -tier quick -repo $S -verif $V 2>&1); rc=$?
  echo "$id exit=$rc $(echo "$out" | grep -E '^VIOLATION' | sed 's/.*obligation=//' | cut -c1-110 | head -3 | tr '\n' ';') $(echo "$out" | grep -E '^ERROR' | head -2 | cut -c1-160)"
  git -C $S checkout -q -- .
done
rm -rf $S $V
