#!/bin/bash
# usage: harmless3.sh <dir with <P>/R*.diff> <P>...   -- like harmless_batch.sh for a batch that is not installed yet
D=$1; shift
S=$(mktemp -d /tmp/refrepo.XXXXXX); V=$(mktemp -d /tmp/refverif.XXXXXX)
rmdir $S; git clone -q /repo $S || exit 2; cp /verif/known_findings.json $V/
for p in "$@"; do
 for f in $D/$p/R*.diff; do
  v=$(basename $f .diff)
  if ! git -C $S apply $f 2>/dev/null; then echo "$p-$v APPLY-FAILED"; continue; fi
  out=$(cd /verif && ./bin/gvc check $p -tier quick -repo $S -verif $V 2>&1); rc=$?
  echo "$p-$v exit=$rc $(echo "$out" | grep -E '^VIOLATION' | sed 's/.*obligation=//' | cut -c1-110 | head -3 | tr '\n' ';') $(echo "$out" | grep -E '^ERROR' | head -1 | cut -c1-160)"
  git -C $S checkout -q -- .
 done
done
rm -rf $S $V
