#!/bin/bash
# usage: replay.sh <replay test file under /verif/replay> <TestName> [repo]
# Runs an in-package test against the real code through `go test -overlay` (nothing is written to the repo).
export PATH=/opt/veriftools/go1.26.8/bin:$PATH GOFLAGS=-mod=mod GOPROXY=off GOSUMDB=off GOTOOLCHAIN=local
f=$1; t=$2; repo=${3:-/repo}
ov=$(mktemp /tmp/ov_XXXXXX.json)
echo "{\"Replace\": {\"$repo/zz_gvc_replay_test.go\": \"$f\"}}" > $ov
cd $repo && go test -overlay $ov -vet=off -count=1 -timeout 60s -run "^$t\$" . 2>&1
rc=$?
rm -f $ov
exit $rc
