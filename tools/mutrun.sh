#!/bin/bash
# usage: mutrun.sh <patch.diff|sed-expr:file> -- <gvc args...>
# copies /repo (working tree, no .git) to a scratch dir, applies the change there, runs gvc with -repo scratch, removes it.
set -u
chg=$1; shift; shift
d=$(mktemp -d /tmp/mut_XXXXXX)
rsync -a --exclude .git /repo/ $d/
if [[ "$chg" == sed:* ]]; then
  IFS=: read -r _ file expr <<<"$chg"
  sed -i "$expr" $d/$file
else
  (cd $d && patch -p1 -s < $chg) || { echo "patch failed"; rm -rf $d; exit 3; }
fi
/verif/bin/gvc "$@" -repo $d
rc=$?
rm -rf $d
exit $rc
