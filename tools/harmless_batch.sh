#!/bin/bash
# usage: harmless_batch.sh [props...]  -- applies each behaviour-preserving refactoring of /verif/seeded_harmless to a scratch
# clone of /repo and runs the check of its property: every line should say exit=0 (exit=2 = contract names a loop variable
# the refactoring replaced: undecided; exit=1 = false alarm).
S=$(mktemp -d /tmp/refrepo.XXXXXX); V=$(mktemp -d /tmp/refverif.XXXXXX)
rmdir $S; git clone -q /repo $S || exit 2; cp /verif/known_findings.json $V/
ps="$@"; [ -z "$ps" ] && ps=$(ls /verif/seeded_harmless)
for p in $ps; do
 for f in /verif/seeded_harmless/$p/R*.diff; do
  v=$(basename $f .diff)
  if ! git -C $S apply $f 2>/dev/null; then echo "$p-$v APPLY-FAILED"; continue; fi
  out=$(cd /verif && ${GVC:-./bin/gvc} check $p -tier quick -repo $S -verif $V 2>&1); rc=$?
  echo "$p-$v exit=$rc $(echo "$out" | grep -E '^VIOLATION' | sed 's/.*obligation=//' | cut -c1-110 | head -3 | tr '\n' ';') $(echo "$out" | grep -E '^ERROR' | head -1 | cut -c1-160)"
  git -C $S checkout -q -- .
 done
done
rm -rf $S $V
