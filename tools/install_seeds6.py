#!/usr/bin/env python3
"""Installs confirmed wave-6 seeded changes from /tmp/w6out/<Cxx>/ as /verif/seeded/<Cxx>I/ and records which
obligations catch them (runs the property's quick check on a scratch clone with the patch applied)."""
import json, os, shutil, subprocess, sys, re
base = subprocess.run(['git','-C','/repo','rev-parse','--short','HEAD'],capture_output=True,text=True).stdout.strip()
ids = sys.argv[1:] or sorted(d for d in os.listdir('/tmp/w6out') if re.fullmatch(r'C\d\d', d))
for p in ids:
    d = f'/tmp/w6out/{p}'; res = f'/tmp/confirm6_{p}.result'
    if not os.path.exists(res): print(p, 'no confirm result'); continue
    r = open(res).read()
    need = ['DEMO_PASSES_ON_BASE=yes','BUILDS=yes','DEMO_FAILS_WITH_PATCH=yes','SUITE_PASSES_WITH_PATCH=yes']
    if not all(x in r for x in need) or 'TOUCHES_TESTS' in r: print(p, 'NOT CONFIRMED'); continue
    sid = p + 'I'; out = f'/verif/seeded/{sid}'
    os.makedirs(out, exist_ok=True)
    shutil.copy(f'{d}/patch.diff', out); shutil.copy(f'{d}/demo_test.go', out)
    m = json.load(open(f'{d}/meta.json'))
    meta = {'property': p, 'wave': 6, 'base': 'HEAD of /repo when the seed was made (HEAD at the time; later commits only touch verif_contracts.go)',
            'summary': m.get('summary'), 'needs': m.get('needs'), 'how_it_breaks': m.get('how_it_breaks'),
            'demo_cmd': f"go test -mod=mod -vet=off -count=1 -run {m.get('demo_test','TestSeed6_'+p)} .",
            'confirmed': {'how': 'tools/confirm_seed6.sh in a scratch worktree of /repo HEAD: patch touches non-test source only, demo passes without the change, package builds with it, demo fails with it, the full unedited suite passes with it (run in a private network namespace so that concurrent runs do not collide on the fixed loopback ports)',
                          'demo_passes_on_base': True, 'builds': True, 'demo_fails_with_patch': True, 'suite_passes_with_patch': True}}
    o = subprocess.run(['/verif/tools/try_seed5.sh', p, f'{out}/patch.diff'], capture_output=True, text=True).stdout
    rc = re.search(r'exit=(\d+)', o)
    obls = re.findall(r'obligation=(\S+)', o)
    meta['caught_by'] = {'check': f'gvc check {p} -tier quick', 'exit': int(rc.group(1)) if rc else None, 'failed_obligations': obls[:8], 'patch_used': 'patch.diff'}
    json.dump(meta, open(f'{out}/meta.json','w'), indent=1)
    print(sid, 'installed; exit', meta['caught_by']['exit'], obls[:2])
