#!/usr/bin/env python3
"""Generates /verif/MANIFEST.json from the table below (kept in one place so it stays consistent)."""
import json
SETUP = "cd /verif/engine && PATH=/opt/veriftools/go1.26.8/bin:$PATH GOFLAGS=-mod=vendor GOPROXY=off GOSUMDB=off GOTOOLCHAIN=local go build -o /verif/bin/gvc ."
TECH = "contract-based deductive verification: weakest-precondition VCs generated from go/ssa of /repo, contracts in /repo/verif_contracts.go (//go:build verif), discharged by z3 4.8.12 / z3 5.1.0 / cvc5 1.0"
checks = {}
def claim(pid, text, note, ref):
    checks[pid] = dict(text=text, note=note, ref=ref)
exec(open('/verif/tools/claims.py').read())
na = json.load(open('/verif/tools/not_applicable.json'))
m = {
 "version": 1,
 "setup_cmd": SETUP,
 "hooks": {
  "guard": "verif",
  "enable": "go/packages loads /repo with -tags=verif; the only guarded file is the comment-only /repo/verif_contracts.go (contracts). Replays inject tests with `go test -overlay`, never by editing the repository.",
  "baseline_off_cmd": "cd /repo && PATH=/opt/veriftools/go1.26.8/bin:$PATH GOFLAGS=-mod=mod GOPROXY=off GOSUMDB=off GOTOOLCHAIN=local go test -vet=off -count=1 -timeout 25m ./...",
  "source_commits": __import__('subprocess').run(['git','-C','/repo','log','--reverse','--format=%H','--','verif_contracts.go'],capture_output=True,text=True).stdout.split(),
  "add_only": True
 },
 "engines": [{"name": "gvc", "path": "/verif/engine", "serves_properties": sorted(checks), "kind_free_text": "SSA-to-SMT verification-condition generator with Gobra-style contracts; modular call rule, monitor invariants for locks, loop invariants, ghost traces; races three SMT solvers"}],
 "checks": [],
 "not_applicable": [x for x in na if x["property_id"] not in checks],
 "notes": "Exit codes of every check: 0 = all obligations of the property discharged (recorded findings are printed as KNOWN-FINDING lines), 1 = at least one obligation not discharged (VIOLATION line per obligation, replay file under /verif/replays/<id>/), 2 = could not decide (repository does not build, contract target missing, solver disagreement, vacuity guard) with an ERROR line and no VIOLATION line."
}
for pid in sorted(checks):
    c = checks[pid]
    m["checks"].append({
     "property_id": pid,
     "quick_cmd": f"./bin/gvc check {pid} -tier quick",
     "thorough_cmd": f"./bin/gvc check {pid} -tier thorough",
     "evidence_file": f"/verif/evidence/{pid}.json",
     "replay_cmd_template": "./bin/gvc replay {path}",
     "engine": "gvc",
     "level_claimed": {"category": "proof", "text": c["text"], "design_ref": c["ref"]},
     "level_note": c["note"],
     "technique": TECH,
    })
json.dump(m, open('/verif/MANIFEST.json','w'), indent=1)
print("claimed:", sorted(checks), "not applicable:", [x["property_id"] for x in m["not_applicable"]])
