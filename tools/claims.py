BASE = ("Trusted: the gvc generator (SSA->SMT semantics), go/ssa+go/types, the three SMT solvers, the externals table "
        "(sync/atomic/time/bytes/...), floats-as-reals, mathematical signed integers outside `arith checked` functions, "
        "sequential consistency with lock-protected state havocked under the lock invariant at every acquisition, user delegates "
        "obeying their interface contracts. ")
claim("C01",
 "For all prior views and all claims: every critical section of aliveNode/suspectNode/deadNode/refute is proved (unbounded, all inputs) to leave the view, timers, events and broadcast queue untouched when the claim is older or weaker, to be monotone in the SWIM order otherwise (only exception: the reclaim branch), and to re-establish the nodeLock invariant; delivery orders follow by induction over critical sections (DESIGN M1).",
 BASE + "Assumes encoding of protocol structs cannot fail (encodeBroadcastNotify contract is trusted), fewer than 2^31 members, resetNodes/mergeState dispatch not yet under contract (listed in DESIGN §5 C01).",
 "DESIGN.md §5 C01")
claim("C02",
 "refute's uint32 arithmetic is proved to land strictly above every accusation below 2^32-1 and above the node's previous incarnation, the self branches of suspectNode/deadNode/aliveNode are proved to call it and to keep the local record alive and never suspect (lock invariant N6, N9), and the queued alive carries the new incarnation.",
 BASE + "Assumes the incarnation counter never wraps (stated in the property). Not decided: that the queued alive is eventually transmitted.",
 "DESIGN.md §5 C02")
claim("C07",
 "Per critical section: an event is emitted iff Members()-membership of the named member changes (join/leave) or a listed member's metadata changes (update), at most one event, only about the named member, always with the write lock held; list/map consistency (N1-N4) is preserved so Members() equals the live records. One genuine defect is recorded as a known finding (self join before bootstrap).",
 BASE + "resetNodes (reaping) contract pending; per-member grammar join (update)* leave follows from the per-step clauses by DESIGN M1 (not machine-checked).",
 "DESIGN.md §5 C07")
claim("C08",
 "aliveNode is proved to change a holder's address only on the reclaim conditions (holder left, or dead longer than a positive DeadNodeReclaimTime) and only to an allowed address, to fire the conflict callback and change nothing otherwise, to drop alive-about-self once leaving; deadNode is proved to record Left iff the claim is self-signed.",
 BASE + "Partial: Leave's own call sequence and 'a live peer has been sent the departure' are not decided (queue drain and timing).",
 "DESIGN.md §5 C08")
claim("C18",
 "Config.IPAllowed is proved equivalent to 'no allowlist or some allowed network contains the IP' (loop invariant), and aliveNode is proved to create a record or adopt a new address only after IPAllowed accepted the claimed address.",
 BASE + "net.IPNet.Contains is an uninterpreted pure function of (network value, ip bytes); CIDRsAllowed is not modified after Create. handleAlive's source check pending.",
 "DESIGN.md §5 C18")
claim("C09",
 "verifyProtocol's universally quantified compatibility statement (every alive range contains every node's current protocol and delegate version, over remote x remote, remote x local, local x remote, local x local) is proved with loop invariants; mergeState is proved to turn a remote dead/suspect entry into a suspicion only, a left entry into a self-signed dead, an alive entry into an alive with the fields copied; mergeRemoteState is proved to merge nothing when verification or the merge delegate fails and to merge exactly once otherwise; handleConn/pushPullNode merge only after a complete read (and, on the receiving side, a sent reply), refuse before reading when the concurrent-request cap is hit, and node/user-state caps dominate the allocations.",
 BASE + "msgpack Decode is an external: it returns a value or an error and reads only from its reader (stream cuts, oversize headers and failed authentication all surface as a non-nil error). Not decided: that the remote side merged us by the time Join returns (timing).",
 "DESIGN.md §5 C09")
claim("C13",
 "Zero-annotation no-panic sweep (nil dereference, index and slice bounds, nil-map write, failing type assertion, close of closed channel, explicit panic, makeslice range, division by zero) of every function reachable from ingestPacket and handleConn, for all byte strings and all states satisfying the lock invariants, plus site obligations that every documented cap (nodes, user state, user message, encrypted length, decompressed size, concurrent push/pulls, hand-off queue depth) dominates the allocation or buffering it protects, and that the push/pull counter is balanced on every path. Three genuine defects found by this sweep were repaired (fix: commits) and are recorded in known_findings.json.",
 BASE + "External decoders (msgpack, LZW, AES-GCM) return a value or an error and do not panic; AEAD.Open returns len-16 bytes on success; bufio.Reader.Peek(n) returns exactly n bytes or an error. Not decided: hangs, goroutine or connection leaks (liveness).",
 "DESIGN.md §5 C13")
claim("C16",
 "The packet label codec is proved for every label of 1..255 bytes and every payload: AddLabelHeaderToPacket produces 244, the length byte, the label bytes and the payload; RemoveLabelHeaderFromPacket returns exactly the label and the remaining bytes, passes unlabelled packets through and never panics; the round trip Remove(Add(buf, L)) = (buf, L) is a lemma over the two contracts. Isolation: ingestPacket and handleConn reach decryption / command dispatch / stream reading only when the received label equals the configured one (or, with SkipInboundLabelCheck, only when no header is present). Stream side: RemoveLabelHeaderFromStream returns an error only if the stream does (or the header is empty) however the bytes are fragmented, and the label it returns is the one in the header.",
 BASE + "bufio.Reader.Peek(n) blocks until n bytes or an error and every Peek is a view of the same unread prefix (this is what makes fragmentation irrelevant); string/byte-slice contents are axiomatised elementwise with an extensionality axiom for strings.",
 "DESIGN.md §5 C16")
claim("C06",
 "remainingSuspicionTime is proved (floats as reals, log monotone) to keep the total timeout within [min,max] for every 0<=n<=k, to equal min at n=k and to be within one millisecond of max at n=0; Confirm is proved to count a confirmation iff fewer than k were seen and the sender is new (the accuser is pre-registered by newSuspicion), to re-arm the timer only with remaining>0 and elapsed+remaining in [min,max], and to fire immediately only once elapsed>=min; newSuspicion arms the timer with min when k<1 and max otherwise; suspectNode passes k, min, max and the accuser as the statement prescribes; the timer callback declares the node dead only if, under the lock, it is still suspect with the StateChange of this very suspicion, with the incarnation read under the lock; every registered suspicion satisfies the representation invariant (N5c).",
 BASE + "IEEE rounding ignored (floats as reals; math.Log uninterpreted, monotone, 0 at 1); time.AfterFunc/Stop/Reset are external (their firing time is not modelled: 'keeps listing it for at least min' is decided as 'never re-armed or fired below min'); configuration validity (SuspicionMaxTimeoutMult>=1, ProbeInterval>=0) assumed; monotonicity of the schedule in n is not stated as a two-run lemma.",
 "DESIGN.md §5 C06")
