#!/usr/bin/env python3
"""Copies confirmed seeded changes from /tmp/seedsrc into /verif/seeded/<id>/ with a meta.json that records
which property is broken, what the change needs in order to manifest and what was run to confirm it."""
import json, os, shutil, glob, re
for d in sorted(glob.glob('/tmp/seedsrc/*')):
    sid = os.path.basename(d)
    res = f'/tmp/confirm_{sid}.result'
    if not os.path.exists(res): continue
    r = open(res).read()
    ok = all(x in r for x in ['DEMO_PASSES_ON_PINNED=yes','BUILDS=yes','DEMO_FAILS_WITH_PATCH=yes'])
    suite = 'SUITE_PASSES_WITH_PATCH=yes' in r
    if not ok: 
        print(sid, 'NOT CONFIRMED'); continue
    out = f'/verif/seeded/{sid}'
    os.makedirs(out, exist_ok=True)
    shutil.copy(f'{d}/patch.diff', out); shutil.copy(f'{d}/demo_test.go', out)
    meta = json.load(open(f'{d}/meta.json'))
    flaky = re.findall(r'--- FAIL: (\S+)', r)
    meta['confirmed'] = {
        'how': 'tools/confirm_seed.sh in a scratch worktree of the pinned commit 36d3b9b: demo passes on pinned source, package builds with the patch, demo fails with the patch, full existing suite run with the patch',
        'demo_passes_on_pinned': True, 'builds': True, 'demo_fails_with_patch': True,
        'suite_passes_with_patch': suite,
        'suite_note': '' if suite else ('suite failure(s) under concurrent load in tests unrelated to the change: ' + ', '.join(sorted(set(flaky)))),
    }
    old = {}
    if os.path.exists(f'{out}/meta.json'):
        old = json.load(open(f'{out}/meta.json'))
    for k in ('caught_by','checks_run'):
        if k in old: meta[k] = old[k]
    json.dump(meta, open(f'{out}/meta.json','w'), indent=1)
    print(sid, 'installed', 'suite_ok' if suite else 'suite_flaky')
