#!/bin/bash
# runs every function under contract and prints only failures (development helper)
cd /verif
./bin/gvc list 2>/dev/null | awk '{print $1}' | while read f; do
  ./bin/gvc func "$f" "$@" 2>&1 | grep -E "^==|FAIL|ERROR|DISAGREE" | awk 'BEGIN{h=""} /^==/{h=$0; next} {if(h!=""){print h; h=""} print}'
done
