#!/usr/bin/env python3
# usage: unsat_core.py standalone.smt2  -- names every assert and prints the unsat core (debugging aid for vacuity)
import re,subprocess,sys
src=open(sys.argv[1]).read().split('\n')
out=['(set-option :produce-unsat-cores true)']; n=0; names={}
for l in src:
    if l.startswith('(assert '):
        b=re.sub(r'\s;\s.*$','',l).rstrip()
        n+=1; names['a%d'%n]=l
        out.append('(assert (! %s :named a%d))'%(b[8:-1],n))
    elif 'get-unsat-core' in l: pass
    else: out.append(l.replace('(check-sat)','(check-sat)\n(get-unsat-core)'))
open('/tmp/_core.smt2','w').write('\n'.join(out))
r=subprocess.run(['z3-new','-t:30000','/tmp/_core.smt2'],capture_output=True,text=True).stdout
print(r[:200])
for c in re.findall(r'\ba\d+\b',r): print(c, names.get(c,'')[:500]); print()
