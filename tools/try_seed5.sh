#!/bin/bash
# usage: try_seed4.sh <Cxx> [patchfile]  -- applies a wave-4 patch to a scratch clone and runs the property's quick check there
id=$1; p=${id:0:3}; pf=${2:-/tmp/w5out/$id/patch.diff}
S=$(mktemp -d /tmp/seedrepo.XXXXXX); V=$(mktemp -d /tmp/seedverif.XXXXXX)
rmdir $S; git clone -q /repo $S || exit 2
mkdir -p $V; cp /verif/known_findings.json $V/; ln -s /verif/tools $V/tools; ln -s /verif/replay $V/replay
git -C $S apply $pf || { echo "$id APPLY-FAILED"; rm -rf $S $V; exit 3; }
out=$(cd /verif && ./bin/gvc check $p -tier quick -repo $S -verif $V 2>&1); rc=$?
echo "$id exit=$rc"
echo "$out" | grep -E '^(VIOLATION|ERROR|KNOWN)' | cut -c1-260 | head -12
echo "$out" | tail -1
rm -rf $S $V
