#!/bin/bash
# usage: confirm_seed.sh <src_dir with patch.diff demo_test.go meta.json> <seed_id>
# Confirms a seeded change in a scratch worktree of /repo's pinned commit (36d3b9b):
#  demo fails with the patch, passes without, full suite passes with the patch.
set -u
export PATH=/opt/veriftools/go1.26.8/bin:$PATH GOFLAGS=-mod=mod GOPROXY=off GOSUMDB=off GOTOOLCHAIN=local
src=$1; id=$2
wt=/tmp/confirm_$id
rm -rf $wt; git -C /repo worktree prune
git -C /repo worktree add -q --detach $wt 36d3b9b || exit 3
cd $wt
res=/tmp/confirm_$id.result
echo "seed $id" > $res
if ! git apply --check $src/patch.diff 2>>$res; then echo "PATCH_DOES_NOT_APPLY" >> $res; cd /; git -C /repo worktree remove --force $wt; exit 1; fi
cp $src/demo_test.go $wt/zz_seed_demo_test.go
run=$(jq -r .demo_cmd $src/meta.json | sed -n 's/.*-run \([^ ]*\).*/\1/p')
[ -z "$run" ] && run=TestSeeded
# without patch
if go test -vet=off -count=1 -timeout 120s -run "$run" . >/tmp/confirm_$id.base.log 2>&1; then echo "DEMO_PASSES_ON_PINNED=yes" >> $res; else echo "DEMO_PASSES_ON_PINNED=no" >> $res; fi
git apply $src/patch.diff
if go build ./... >/tmp/confirm_$id.build.log 2>&1; then echo "BUILDS=yes" >> $res; else echo "BUILDS=no" >> $res; fi
if go test -vet=off -count=1 -timeout 120s -run "$run" . >/tmp/confirm_$id.mut.log 2>&1; then echo "DEMO_FAILS_WITH_PATCH=no" >> $res; else echo "DEMO_FAILS_WITH_PATCH=yes" >> $res; fi
rm -f $wt/zz_seed_demo_test.go
ok=no
for i in 1 2; do
  if go test -vet=off -count=1 -timeout 25m ./... >/tmp/confirm_$id.suite.log 2>&1; then ok=yes; break; fi
done
echo "SUITE_PASSES_WITH_PATCH=$ok" >> $res
grep -E "^(--- FAIL|FAIL)" /tmp/confirm_$id.suite.log | head -5 >> $res
cd /
git -C /repo worktree remove --force $wt
cat $res
