#!/bin/bash
# usage: try_seed.sh <seed dir containing patch.diff> <prop> [<prop>...]
# applies the seeded change to /repo, runs the listed checks, undoes the change.
d=$1; shift
cd /repo || exit 2
if [ -n "$(git status --porcelain --untracked-files=no)" ]; then echo "repo dirty, refusing"; exit 2; fi
pf=$d/patch.diff; [ -f $d/patch.rebased.diff ] && pf=$d/patch.rebased.diff; git apply $pf || { echo "APPLY FAILED"; exit 3; }
for p in "$@"; do
  out=$(cd /verif && ./bin/gvc check $p -tier quick 2>&1)
  rc=$?
  echo "== $(basename $d) vs $p: exit=$rc"
  echo "$out" | grep -E "^(VIOLATION|ERROR|KNOWN)" | cut -c1-220 | head -8
done
git checkout -- . 
# evidence files were rewritten by the mutated runs: restore the committed ones
cd /verif && git checkout -- evidence 2>/dev/null
