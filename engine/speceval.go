package main

import (
	"fmt"
	"go/ast"
	"go/types"
	"strings"

	"golang.org/x/tools/go/ssa"
)

// Evaluation of contract expressions into SMT terms over a (current, old) pair
// of program states.

type Env struct {
	vars   map[string]*Val
	result []*Val
	fr     *Frame
	// inside an iter-invariant: the set of elements the callback has been called on, and whether it asked to stop
	iterVisited, iterStopped string
}

func (e *Eng) newEnv() *Env { return &Env{vars: map[string]*Val{}} }

func (env *Env) clone() *Env {
	n := &Env{vars: make(map[string]*Val, len(env.vars)), result: env.result, fr: env.fr, iterVisited: env.iterVisited, iterStopped: env.iterStopped}
	for k, v := range env.vars {
		n.vars[k] = v
	}
	return n
}

// funcEnv: parameters by source name and by the positional names written in the contract header.
func (e *Eng) funcEnv(fr *Frame) *Env {
	env := e.newEnv()
	env.fr = fr
	for i, p := range fr.fn.Params {
		if i < len(fr.params) {
			env.vars[p.Name()] = fr.params[i]
			if fr.fspec != nil && i < len(fr.fspec.ParamNames) {
				env.vars[fr.fspec.ParamNames[i]] = fr.params[i]
			}
		}
	}
	for _, fv := range fr.fn.FreeVars {
		if v, ok := fr.freeVals[fv.Name()]; ok {
			env.vars[fv.Name()] = v
		} else if v, ok := fr.vals[fv]; ok {
			env.vars[fv.Name()] = v
		}
	}
	// single-assignment local variables, by their source name (from go/ssa debug references)
	if fr.locals == nil {
		fr.locals = map[string]ssa.Value{}
		vals := map[string]map[ssa.Value]bool{}
		addrs := map[string]map[ssa.Value]bool{}
		for _, b := range fr.fn.Blocks {
			for _, ins := range b.Instrs {
				d, ok := ins.(*ssa.DebugRef)
				if !ok {
					continue
				}
				id, ok := d.Expr.(*ast.Ident)
				if !ok {
					continue
				}
				if _, isConst := d.X.(*ssa.Const); isConst {
					continue
				}
				tgt := vals
				if d.IsAddr {
					// address-taken local (e.g. a range copy of a struct): exposed as a pointer, selectors auto-dereference
					if _, isAlloc := d.X.(*ssa.Alloc); !isAlloc {
						continue
					}
					tgt = addrs
				}
				if tgt[id.Name] == nil {
					tgt[id.Name] = map[ssa.Value]bool{}
				}
				tgt[id.Name][d.X] = true
			}
		}
		fr.nameCands = map[string][]ssa.Value{}
		for n, set := range vals {
			if len(set) == 1 {
				for v := range set {
					fr.locals[n] = v
				}
			} else {
				for v := range set {
					fr.nameCands[n] = append(fr.nameCands[n], v)
				}
			}
		}
		for _, b := range fr.fn.Blocks {
			for _, ins := range b.Instrs {
				if p, ok := ins.(*ssa.Phi); ok && p.Comment != "" {
					fr.nameCands[p.Comment] = append(fr.nameCands[p.Comment], p)
				}
			}
		}
		for n, set := range addrs {
			if _, have := fr.locals[n]; !have && len(set) == 1 {
				for v := range set {
					fr.locals[n] = v
				}
			}
		}
		// address-taken variables are also recognisable by the name go/ssa records on their allocation
		byComment := map[string][]ssa.Value{}
		for _, b := range fr.fn.Blocks {
			for _, ins := range b.Instrs {
				if a, ok := ins.(*ssa.Alloc); ok && a.Comment != "" && a.Comment != "complit" && a.Comment != "slicelit" && a.Comment != "varargs" {
					byComment[a.Comment] = append(byComment[a.Comment], a)
				}
			}
		}
		for n, as := range byComment {
			if _, have := fr.locals[n]; !have && len(as) == 1 {
				fr.locals[n] = as[0]
			}
			// cell_x: the memory cell of the address-taken variable x itself (x may also name a value read from it)
			if len(as) == 1 {
				fr.locals["cell_"+n] = as[0]
				if fr.addrLocals == nil {
					fr.addrLocals = map[string]ssa.Value{}
				}
				fr.addrLocals[n] = as[0]
			}
		}
	}
	for n, v := range fr.locals {
		if _, taken := env.vars[n]; taken {
			continue
		}
		if val, ok := fr.vals[v]; ok {
			env.vars[n] = val
		} else if a, ok := fr.addrLocals[n]; ok {
			// the only value read from this address-taken variable is read later: here the name denotes its cell
			if av, ok := fr.vals[a]; ok {
				env.vars[n] = av
			}
		}
	}
	// variables assigned more than once: the definition that reaches the current block, i.e. the candidate
	// (a phi carrying the variable's name, or a value go/ssa recorded for it) defined in the closest dominator
	if fr.curBlock != nil {
		for n, cands := range fr.nameCands {
			if _, taken := env.vars[n]; taken {
				continue
			}
			var best ssa.Value
			bestDepth := -1
			for _, c := range cands {
				ins, ok := c.(ssa.Instruction)
				if !ok {
					continue
				}
				db := ins.Block()
				if db == nil || !(db == fr.curBlock || db.Dominates(fr.curBlock)) {
					continue
				}
				if _, defined := fr.vals[c]; !defined {
					continue
				}
				// deeper dominator first; within one block the latest definition already executed
				d := domDepth(db) * 100000
				for i, bi := range db.Instrs {
					if bi == ins {
						d += i + 1
						break
					}
				}
				if d > bestDepth {
					best, bestDepth = c, d
				}
			}
			if best != nil {
				env.vars[n] = fr.vals[best]
			} else if a, ok := fr.addrLocals[n]; ok {
				// no value read from the variable reaches this point yet: the name denotes the variable's cell
				if v, ok := fr.vals[a]; ok {
					env.vars[n] = v
				}
			}
		}
	}
	return env
}

func (e *Eng) evalClause(c *Clause, env *Env, cur, old *State, fr *Frame) string {
	if old == nil {
		old = cur
	}
	if fr != nil && fr.fspec != nil {
		env = e.withLets(fr.fspec, env, cur, old)
	}
	return e.evalBool(c.Expr, env, cur, old, c)
}

func (e *Eng) evalClauseEnv(c *Clause, env *Env, cur, old *State) string {
	if old == nil {
		old = cur
	}
	return e.evalBool(c.Expr, env, cur, old, c)
}

func (e *Eng) withLets(fs *FuncSpec, env *Env, cur, old *State) *Env {
	if len(fs.Lets) == 0 {
		return env
	}
	n := env.clone()
	for _, l := range fs.Lets {
		func() {
			defer func() {
				if r := recover(); r != nil {
					e.errf("let %s: %v", l.Name, r)
				}
			}()
			n.vars[l.Name] = e.eval(l.Expr, n, cur, old)
		}()
	}
	return n
}

func (e *Eng) evalBool(x Expr, env *Env, cur, old *State, c *Clause) (res string) {
	defer func() {
		if r := recover(); r != nil {
			lbl := "?"
			if c != nil {
				lbl = fmt.Sprintf("%s (line %d)", c.Label, c.Line)
			}
			// (a clause that names a variable the function no longer has is reported as an engine ERROR, exit 2:
			// the contract and the code are out of step and nothing is decided; a harmless rename of a local must
			// not become a VIOLATION)
			e.errf("contract clause %s: %v", lbl, r)
			res = "false"
		}
	}()
	v := e.eval(x, env, cur, old)
	if v.sortName(e) != "Bool" {
		panic(fmt.Sprintf("clause is not boolean (sort %s)", v.sortName(e)))
	}
	return v.T
}

func (v *Val) sortName(e *Eng) string {
	if v.Sort != "" {
		return v.Sort
	}
	if v.Typ != nil {
		return e.sortOf(v.Typ)
	}
	return "Int"
}

func bval(t string) *Val { return &Val{T: t, Typ: types.Typ[types.Bool], KnownLen: -1} }
func ival(t string) *Val { return &Val{T: t, Typ: types.Typ[types.Int], KnownLen: -1} }

func (e *Eng) specType(name string) (types.Type, string) {
	name = strings.TrimSpace(name)
	switch name {
	case "bseq", "BSeq":
		return nil, "BSeq"
	case "ref":
		return nil, "Int"
	case "intmap":
		return nil, "(Array Int Int)"
	case "real":
		return types.Typ[types.Float64], "Real"
	}
	for _, dt := range e.spec.Datatypes {
		if dt.Name == name {
			return nil, "D_" + name
		}
	}
	if name == "Trace" {
		return nil, "Trace"
	}
	t := e.ld.typeOf(name)
	if t == nil {
		panic("unknown type " + name)
	}
	return t, e.sortOf(t)
}

func (e *Eng) eval(x Expr, env *Env, cur, old *State) *Val {
	switch n := x.(type) {
	case *ENum:
		if strings.Contains(n.V, ".") {
			return &Val{T: n.V, Typ: types.Typ[types.Float64], KnownLen: -1}
		}
		return &Val{T: n.V, Typ: types.Typ[types.UntypedInt], KnownLen: -1}
	case *EStr:
		s := n.V
		return &Val{T: e.strLit(s), Typ: types.Typ[types.String], Lit: &s, KnownLen: -1}
	case *EIdent:
		return e.evalIdent(n.Name, env, cur, old)
	case *EOld:
		return e.eval(n.X, env, old, old)
	case *EUn:
		v := e.eval(n.X, env, cur, old)
		switch n.Op {
		case "!":
			return bval(not(v.T))
		case "-":
			return &Val{T: sx("-", v.T), Typ: v.Typ, KnownLen: -1}
		case "*":
			pt := derefType(v.Typ)
			if pt == nil {
				panic("deref of non-pointer")
			}
			return &Val{T: e.load(cur, e.locOfPtr(v)), Typ: pt, KnownLen: -1}
		}
	case *EBin:
		return e.evalBin(n, env, cur, old)
	case *EQuant:
		ne := env.clone()
		var decls, ranges []string
		for _, p := range n.Vars {
			t, srt := e.specType(p.Type)
			vn := "q_" + sanitize(p.Name)
			ne.vars[p.Name] = &Val{T: vn, Typ: t, Sort: srtIfNil(t, srt), KnownLen: -1}
			decls = append(decls, fmt.Sprintf("(%s %s)", vn, srt))
			if t != nil {
				if lo, hi, ok := intRange(t); ok {
					ranges = append(ranges, and(sx("<=", lo, vn), sx("<=", vn, hi)))
				}
				if isString(t) {
					ranges = append(ranges, sx(">=", sx("strlen", vn), "0"))
				}
			}
		}
		body := e.eval(n.Body, ne, cur, old)
		if n.Forall {
			return bval(fmt.Sprintf("(forall (%s) %s)", strings.Join(decls, " "), implies(and(ranges...), body.T)))
		}
		return bval(fmt.Sprintf("(exists (%s) %s)", strings.Join(decls, " "), and(append(ranges, body.T)...)))
	case *ESel:
		return e.evalSel(n, env, cur, old)
	case *EIdx:
		base := e.autoDerefSlice(e.eval(n.X, env, cur, old), cur)
		idx := e.eval(n.I, env, cur, old)
		return e.indexVal(base, idx, cur)
	case *ESlice:
		base := e.eval(n.X, env, cur, old)
		lo := "0"
		if n.Lo != nil {
			lo = e.eval(n.Lo, env, cur, old).T
		}
		if isString(base.Typ) {
			hi := sx("strlen", base.T)
			if n.Hi != nil {
				hi = e.eval(n.Hi, env, cur, old).T
			}
			e.sc.declare("substr", "(declare-fun substr (Str Int Int) Str)")
			return &Val{T: sx("substr", base.T, lo, hi), Typ: base.Typ, KnownLen: -1}
		}
		hi := sx("s_len", base.T)
		if n.Hi != nil {
			hi = e.eval(n.Hi, env, cur, old).T
		}
		return &Val{T: fmt.Sprintf("(mk_slice %s (+ %s %s) (- %s %s) (- %s %s))", sx("s_arr", base.T), sx("s_off", base.T), lo, hi, lo, sx("s_cap", base.T), lo), Typ: base.Typ, KnownLen: -1}
	case *ECall:
		return e.evalCall(n, env, cur, old)
	}
	panic(fmt.Sprintf("cannot evaluate %T", x))
}

func srtIfNil(t types.Type, s string) string {
	if t == nil {
		return s
	}
	return ""
}

func (e *Eng) evalIdent(name string, env *Env, cur, old *State) *Val {
	if v, ok := env.vars[name]; ok {
		return v
	}
	switch name {
	case "true":
		return bval("true")
	case "false":
		return bval("false")
	case "nil":
		return &Val{T: "0", Typ: types.Typ[types.UntypedNil], KnownLen: -1}
	case "result", "result0":
		if len(env.result) == 0 {
			panic("no result here")
		}
		return env.result[0]
	case "result1", "result2", "result3", "result4":
		i := int(name[6] - '0')
		if i >= len(env.result) {
			panic("no " + name + " here")
		}
		return env.result[i]
	case "$now":
		return &Val{T: e.get(cur, clockRegion, "Int"), Typ: types.Typ[types.Int64], KnownLen: -1}
	case "$fr":
		return ival(e.get(cur, frRegion, "Int"))
	}
	if strings.HasPrefix(name, "$") {
		if gt, ok := e.spec.Ghosts[name]; ok {
			t, srt := e.specType(gt)
			return &Val{T: e.get(cur, "G."+name, srt), Typ: t, Sort: srtIfNil(t, srt), KnownLen: -1}
		}
		panic("unknown ghost " + name)
	}
	// package-level constant?
	if obj := e.ld.pkg.Types.Scope().Lookup(name); obj != nil {
		if c, ok := obj.(*types.Const); ok {
			s := c.Val().ExactString()
			if isString(c.Type()) {
				str := strings.Trim(s, "\"")
				return &Val{T: e.strLit(str), Typ: c.Type(), Lit: &str, KnownLen: -1}
			}
			return &Val{T: bigLit(s), Typ: c.Type(), KnownLen: -1}
		}
	}
	// nullary datatype constructor
	for _, dt := range e.spec.Datatypes {
		for _, c := range dt.Ctors {
			if c.Name == name && len(c.Fields) == 0 {
				e.declDatatypes()
				return &Val{T: name, Sort: "D_" + dt.Name, KnownLen: -1}
			}
		}
	}
	panic("unknown identifier " + name)
}

func (e *Eng) evalBin(n *EBin, env *Env, cur, old *State) *Val {
	switch n.Op {
	case "&&", "||", "==>", "<==>":
		l := e.eval(n.L, env, cur, old)
		r := e.eval(n.R, env, cur, old)
		switch n.Op {
		case "&&":
			return bval(and(l.T, r.T))
		case "||":
			return bval(or(l.T, r.T))
		case "==>":
			return bval(implies(l.T, r.T))
		default:
			return bval(eq(l.T, r.T))
		}
	}
	l := e.eval(n.L, env, cur, old)
	r := e.eval(n.R, env, cur, old)
	real := l.sortName(e) == "Real" || r.sortName(e) == "Real"
	conv := func(v *Val) string {
		if real && v.sortName(e) != "Real" {
			if isNumLit(v.T) {
				return v.T + ".0"
			}
			return sx("to_real", v.T)
		}
		return v.T
	}
	switch n.Op {
	case "==", "!=":
		var c string
		ls, rs := l.sortName(e), r.sortName(e)
		if isUntypedNil(r.Typ) && ls == "Slice" {
			c = eq(sx("s_arr", l.T), "0")
		} else if isUntypedNil(l.Typ) && rs == "Slice" {
			c = eq(sx("s_arr", r.T), "0")
		} else {
			if ls != rs && !real {
				panic(fmt.Sprintf("== on different sorts %s vs %s", ls, rs))
			}
			c = eq(conv(l), conv(r))
		}
		if n.Op == "!=" {
			c = not(c)
		}
		return bval(c)
	case "<", "<=", ">", ">=":
		if isString(l.Typ) {
			panic("string ordering not supported in specs")
		}
		return bval(sx(n.Op, conv(l), conv(r)))
	case "+", "-", "*":
		t := l.Typ
		if isUntyped(t) {
			t = r.Typ
		}
		if real {
			return &Val{T: sx(n.Op, conv(l), conv(r)), Typ: types.Typ[types.Float64], KnownLen: -1}
		}
		return &Val{T: sx(n.Op, l.T, r.T), Typ: mathType(t), KnownLen: -1}
	case "/":
		if real {
			return &Val{T: sx("/", conv(l), conv(r)), Typ: types.Typ[types.Float64], KnownLen: -1}
		}
		return &Val{T: sx("div", l.T, r.T), Typ: mathType(l.Typ), KnownLen: -1}
	case "%":
		return &Val{T: sx("mod", l.T, r.T), Typ: mathType(l.Typ), KnownLen: -1}
	}
	panic("operator " + n.Op)
}

func isNumLit(s string) bool {
	if s == "" {
		return false
	}
	for _, c := range s {
		if c < '0' || c > '9' {
			return false
		}
	}
	return true
}

// arithmetic in specs is mathematical: results are untyped ints
func mathType(t types.Type) types.Type {
	return types.Typ[types.UntypedInt]
}

func isUntyped(t types.Type) bool {
	b, ok := t.(*types.Basic)
	return ok && b.Info()&types.IsUntyped != 0
}
func isUntypedNil(t types.Type) bool {
	b, ok := t.(*types.Basic)
	return ok && b.Kind() == types.UntypedNil
}

func (e *Eng) evalSel(n *ESel, env *Env, cur, old *State) *Val {
	base := e.eval(n.X, env, cur, old)
	// spec datatype accessor
	if base.Typ == nil && strings.HasPrefix(base.Sort, "D_") {
		e.declDatatypes()
		return e.dtAccessor(base, n.Name)
	}
	if base.Typ == nil {
		panic("selector ." + n.Name + " on spec value of sort " + base.Sort)
	}
	return e.selectField(base, n.Name, cur)
}

func (e *Eng) selectField(base *Val, name string, cur *State) *Val {
	// the name of an address-taken pointer variable denotes its cell (a **T): a selector means the pointer in the cell
	if pt := derefType(base.Typ); pt != nil {
		if ppt := derefType(pt); ppt != nil && structOf(ppt) != nil {
			base = &Val{T: e.load(cur, e.locOfPtr(base)), Typ: pt, KnownLen: -1}
		}
	}
	t := base.Typ
	isPtr := false
	if pt := derefType(t); pt != nil {
		t = pt
		isPtr = true
	}
	if structOf(t) == nil || !isStructValue(t) {
		panic(fmt.Sprintf("selector .%s on non-struct %v", name, base.Typ))
	}
	obj, path, _ := types.LookupFieldOrMethod(t, true, e.ld.pkg.Types, name)
	if obj == nil {
		panic(fmt.Sprintf("no field %s in %v", name, t))
	}
	if _, ok := obj.(*types.Var); !ok {
		panic(fmt.Sprintf("%s is not a field of %v", name, t))
	}
	curT := t
	term := base.T
	ptrMode := isPtr
	var loc *Loc
	if isPtr && base.Loc != nil && (base.Loc.Kind == LElem || base.Loc.Kind == LPath || base.Loc.Kind == LCell && false) {
		// pointer into a struct value stored in a container: read the value and use accessors
		term = e.load(cur, base.Loc)
		ptrMode = false
	}
	for _, idx := range path {
		s := structOf(curT)
		ft := s.Field(idx).Type()
		if ptrMode {
			if isStructValue(ft) {
				term = e.subPtr(curT, idx, term)
				curT = ft
				continue
			}
			loc = &Loc{Kind: LField, Base: term, ST: curT, Idx: idx, ET: ft}
			term = e.loadField(cur, term, curT, idx)
			curT = ft
			ptrMode = false
			// further path elements would need an embedded pointer
			if pt := derefType(ft); pt != nil && isStructValue(pt) {
				ptrMode = true
				curT = pt
				loc = nil
			}
			continue
		}
		name := e.structSort(curT, s)
		term = fmt.Sprintf("(%s_%d %s)", name, idx, term)
		curT = ft
		if pt := derefType(ft); pt != nil && isStructValue(pt) {
			ptrMode = true
			curT = pt
		}
	}
	resT := obj.Type()
	if ptrMode && isStructValue(resT) {
		// selecting an embedded struct through a pointer yields the struct value
		return &Val{T: e.loadObject(cur, term, resT), Typ: resT, KnownLen: -1, Loc: &Loc{Kind: LCell, Base: term, ET: resT}}
	}
	_ = loc
	return &Val{T: term, Typ: resT, KnownLen: -1}
}

func (e *Eng) indexVal(base, idx *Val, cur *State) *Val {
	if base.Typ == nil {
		if base.Sort == "(Array Int Int)" {
			return ival(sel(base.T, idx.T))
		}
		panic("index on spec value")
	}
	switch u := types.Unalias(base.Typ).Underlying().(type) {
	case *types.Slice:
		r, rs := e.elemRegion(u.Elem())
		return &Val{T: sel(sel(e.get(cur, r, rs), sx("s_arr", base.T)), idxAt(sx("s_off", base.T), idx.T)), Typ: u.Elem(), KnownLen: -1}
	case *types.Map:
		_, _, vr, vs := e.mapRegions(u)
		return &Val{T: sel(sel(e.get(cur, vr, vs), base.T), idx.T), Typ: u.Elem(), KnownLen: -1}
	case *types.Array:
		return &Val{T: sel(base.T, idx.T), Typ: u.Elem(), KnownLen: -1}
	case *types.Basic:
		if isString(base.Typ) {
			return &Val{T: sx("strat", base.T, idx.T), Typ: types.Typ[types.Uint8], KnownLen: -1}
		}
	}
	panic(fmt.Sprintf("cannot index %v", base.Typ))
}

func (e *Eng) bseqOf(v *Val, cur *State) string {
	if v.Typ == nil {
		if v.Sort == "BSeq" {
			return v.T
		}
		panic("bseq of spec value")
	}
	if isString(v.Typ) {
		return sx("bseq_of_str", v.T)
	}
	if isByteSlice(v.Typ) {
		r, rs := e.elemRegion(types.Typ[types.Uint8])
		return sx("bseq", sel(e.get(cur, r, rs), sx("s_arr", v.T)), sx("s_off", v.T), sx("s_len", v.T))
	}
	panic(fmt.Sprintf("bseq of %v", v.Typ))
}

func (e *Eng) evalCall(n *ECall, env *Env, cur, old *State) *Val {
	args := func() []*Val {
		var vs []*Val
		for _, a := range n.Args {
			vs = append(vs, e.eval(a, env, cur, old))
		}
		return vs
	}
	switch n.Fn {
	case "len", "cap":
		a := e.autoDerefSlice(e.eval(n.Args[0], env, cur, old), cur)
		if a.Typ == nil {
			if a.Sort == "BSeq" {
				return ival(sx("bseq_len", a.T))
			}
			panic("len of spec value")
		}
		switch u := types.Unalias(a.Typ).Underlying().(type) {
		case *types.Slice:
			if n.Fn == "cap" {
				return ival(sx("s_cap", a.T))
			}
			return ival(sx("s_len", a.T))
		case *types.Basic:
			return ival(sx("strlen", a.T))
		case *types.Map:
			r, rs := e.mapLenRegion(u)
			return ival(ite(eq(a.T, "0"), "0", sel(e.get(cur, r, rs), a.T)))
		}
		panic("len of " + a.Typ.String())
	case "has":
		as := args()
		mt, ok := types.Unalias(as[0].Typ).Underlying().(*types.Map)
		if !ok {
			panic("has() on non-map")
		}
		hr, hs, _, _ := e.mapRegions(mt)
		return bval(and(not(eq(as[0].T, "0")), sel(sel(e.get(cur, hr, hs), as[0].T), as[1].T)))
	case "ite":
		as := args()
		return &Val{T: ite(as[0].T, as[1].T, as[2].T), Typ: as[1].Typ, Sort: as[1].Sort, KnownLen: -1}
	case "bytesEq":
		as := args()
		return bval(eq(e.bseqOf(as[0], cur), e.bseqOf(as[1], cur)))
	case "bseq":
		as := args()
		return &Val{T: e.bseqOf(as[0], cur), Sort: "BSeq", KnownLen: -1}
	case "isnil":
		a := e.eval(n.Args[0], env, cur, old)
		if a.sortName(e) == "Slice" {
			return bval(eq(sx("s_arr", a.T), "0"))
		}
		return bval(eq(a.T, "0"))
	case "held":
		id, ok := n.Args[0].(*EIdent)
		if !ok {
			if s, ok2 := n.Args[0].(*ESel); ok2 {
				if b, ok3 := s.X.(*EIdent); ok3 {
					id = &EIdent{b.Name + "." + s.Name}
				}
			}
		}
		if id == nil {
			panic("held(Type.lock)")
		}
		if cur.held[id.Name] != "" {
			return bval("true")
		}
		return bval("false")
	case "fresh":
		a := e.eval(n.Args[0], env, cur, old)
		if a.sortName(e) == "Slice" {
			return bval(sx(">=", sx("s_arr", a.T), e.get(old, frRegion, "Int")))
		}
		return bval(sx(">=", a.T, e.get(old, frRegion, "Int")))
	case "freshOnly":
		// freshOnly("elems []byte"): every location of the region that existed at the old state is unchanged
		pat := n.Args[0].(*EStr).V
		var cs []string
		for _, r := range e.resolveRegionPattern(pat) {
			srt := e.regionSort[r]
			cs = append(cs, fmt.Sprintf("(forall ((p Int)) (! (=> (< p %s) (= (select %s p) (select %s p))) :pattern ((select %s p))))", e.get(old, frRegion, "Int"), e.get(cur, r, srt), e.get(old, r, srt), e.get(cur, r, srt)))
		}
		return bval(and(cs...))
	case "upd":
		as := args()
		return &Val{T: sto(as[0].T, as[1].T, as[2].T), Sort: "(Array Int Int)", KnownLen: -1}
	case "implements":
		// implements(x, I): the interface value x is non-nil and its dynamic type implements interface I
		a := e.eval(n.Args[0], env, cur, old)
		t, _ := e.specType(typeArgName(n.Args[1]))
		fn := "implements_" + typeKey(t)
		e.sc.declare(fn, fmt.Sprintf("(declare-fun %s (Int) Bool)", fn))
		return bval(and(not(eq(a.T, "0")), sx(fn, sx("typeof", a.T))))
	case "arr":
		// arr(s): identity of the backing array of a slice (an integer; two slices over one array share it)
		as := args()
		return ival(sx("s_arr", as[0].T))
	case "zeromap":
		return &Val{T: "((as const (Array Int Int)) 0)", Sort: "(Array Int Int)", KnownLen: -1}
	case "inTree":
		// inTree(t, p): the item p is in the btree t (trusted btree model, engine/btree.go)
		as := args()
		e.btInit()
		return bval(sel(sel(e.get(cur, btItems, e.regionSort[btItems]), as[0].T), as[1].T))
	case "treeLen":
		as := args()
		e.btInit()
		return ival(sel(e.get(cur, btLen, e.regionSort[btLen]), as[0].T))
	case "visited":
		if env.iterVisited == "" {
			panic("visited() outside an iter-invariant")
		}
		as := args()
		return bval(sel(env.iterVisited, as[0].T))
	case "stopped":
		if env.iterStopped == "" {
			panic("stopped() outside an iter-invariant")
		}
		return bval(env.iterStopped)
	case "entry":
		// entry(p): the value parameter p had when the function was entered (the name may since have been reassigned)
		id, ok := n.Args[0].(*EIdent)
		if !ok {
			panic("entry() needs a parameter name")
		}
		if env.fr != nil {
			for _, pr := range env.fr.fn.Params {
				if pr.Name() == id.Name {
					if v := env.fr.vals[pr]; v != nil {
						return v
					}
				}
			}
		}
		// at a call site the contract's parameter names are bound to the actual arguments
		if v, ok := env.vars[id.Name]; ok {
			return v
		}
		panic("entry(): no parameter " + id.Name)
	case "sep":
		// sep(a, b): two slices with different backing arrays
		as := args()
		return bval(sx("not", sx("=", sx("s_arr", as[0].T), sx("s_arr", as[1].T))))
	case "allocated":
		a := e.eval(n.Args[0], env, cur, old)
		if a.sortName(e) == "Slice" {
			return bval(and(sx("<=", "0", sx("s_arr", a.T)), sx("<", sx("s_arr", a.T), e.get(cur, frRegion, "Int"))))
		}
		return bval(and(sx("<", "0", a.T), sx("<", a.T, e.get(cur, frRegion, "Int"))))
	case "toReal":
		a := e.eval(n.Args[0], env, cur, old)
		if a.sortName(e) == "Real" {
			return a
		}
		return &Val{T: sx("to_real", a.T), Typ: types.Typ[types.Float64], KnownLen: -1}
	case "floor":
		a := e.eval(n.Args[0], env, cur, old)
		return ival(sx("to_int", a.T))
	case "log", "log10", "log2":
		a := e.eval(n.Args[0], env, cur, old)
		e.declMath()
		t := a.T
		if a.sortName(e) != "Real" {
			t = sx("to_real", t)
		}
		return &Val{T: sx("m_"+n.Fn, t), Typ: types.Typ[types.Float64], KnownLen: -1}
	case "typeIs":
		a := e.eval(n.Args[0], env, cur, old)
		t, _ := e.specType(typeArgName(n.Args[1]))
		return bval(and(not(eq(a.T, "0")), eq(sx("typeof", a.T), e.typeID(t))))
	case "ext":
		// ext("pkg.Func", args...): the same uninterpreted function the engine uses for that pure external
		name := n.Args[0].(*EStr).V
		var as, ss []string
		for _, ax := range n.Args[1:] {
			a := e.eval(ax, env, cur, old)
			t, srt := a.T, a.sortName(e)
			if a.Typ != nil && isByteSlice(a.Typ) {
				t, srt = e.bseqOf(a, cur), "BSeq"
			}
			as = append(as, t)
			ss = append(ss, srt)
		}
		fn := e.ld.funcs[name]
		var rt types.Type
		if fn == nil {
			for f := range e.ld.allFuncs {
				if f.String() == name {
					rt = f.Signature.Results().At(0).Type()
				}
			}
		} else {
			rt = fn.Signature.Results().At(0).Type()
		}
		if rt == nil {
			panic("ext: unknown function " + name)
		}
		ufn := "ext_" + sanitize(name)
		e.sc.declare(ufn, fmt.Sprintf("(declare-fun %s (%s) %s)", ufn, strings.Join(ss, " "), e.sortOf(rt)))
		return &Val{T: sx(ufn, as...), Typ: rt, KnownLen: -1}
	case "unbox":
		a := e.eval(n.Args[0], env, cur, old)
		tn := typeArgName(n.Args[1])
		t, _ := e.specType(tn)
		un := "unbox_" + typeKey(t)
		e.sc.declare(un, fmt.Sprintf("(declare-fun %s (Int) %s)", un, e.sortOf(t)))
		return &Val{T: sx(un, a.T), Typ: t, KnownLen: -1}
	case "sub":
		// sub(p, Type, field): pointer to the embedded struct field
		a := e.eval(n.Args[0], env, cur, old)
		t := derefType(a.Typ)
		fld := n.Args[1].(*EIdent).Name
		s := structOf(t)
		for i := 0; i < s.NumFields(); i++ {
			if s.Field(i).Name() == fld {
				return &Val{T: e.subPtr(t, i, a.T), Typ: types.NewPointer(s.Field(i).Type()), KnownLen: -1}
			}
		}
		panic("sub: no field " + fld)
	case "snoc", "tnil":
		e.declTrace()
		if n.Fn == "tnil" {
			return &Val{T: "tnil", Sort: "Trace", KnownLen: -1}
		}
		as := args()
		return &Val{T: sx("snoc", as[0].T, as[1].T), Sort: "Trace", KnownLen: -1}
	case "sumlens":
		// sumlens(s, k): sum of len(s[j]) for j < k  (s is a [][]byte)
		as := args()
		sl, _ := types.Unalias(as[0].Typ).Underlying().(*types.Slice)
		if sl == nil {
			panic("sumlens of non-slice")
		}
		r, rs := e.elemRegion(sl.Elem())
		return ival(sx("sumlens", sel(e.get(cur, r, rs), sx("s_arr", as[0].T)), sx("s_off", as[0].T), as[1].T))
	case "buflen":
		a := e.eval(n.Args[0], env, cur, old)
		return ival(sel(e.get(cur, "BL", "(Array Int Int)"), a.T))
	case "closed":
		a := e.eval(n.Args[0], env, cur, old)
		return bval(sel(e.get(cur, chanClosedRegion, "(Array Int Bool)"), a.T))
	case "sliceEq":
		// same header (same backing array, offset, length)
		as := args()
		return bval(and(eq(sx("s_arr", as[0].T), sx("s_arr", as[1].T)), eq(sx("s_off", as[0].T), sx("s_off", as[1].T)), eq(sx("s_len", as[0].T), sx("s_len", as[1].T))))
	}
	// user pure function (macro expansion)
	if pd, ok := e.spec.Pures[n.Fn]; ok {
		if len(pd.Params) != len(n.Args) {
			panic(fmt.Sprintf("pure %s: want %d args", n.Fn, len(pd.Params)))
		}
		ne := env.clone()
		as := args()
		if pd.Body == nil {
			// uninterpreted: a function of the argument values only
			rt, rs := e.specType(pd.Ret)
			var ss, ts []string
			for _, a := range as {
				ss = append(ss, a.sortName(e))
				ts = append(ts, a.T)
			}
			fn := "spec_" + pd.Name
			e.sc.declare(fn, fmt.Sprintf("(declare-fun %s (%s) %s)", fn, strings.Join(ss, " "), rs))
			return &Val{T: sx(fn, ts...), Typ: rt, Sort: rs, KnownLen: -1}
		}
		for i, p := range pd.Params {
			ne.vars[p.Name] = as[i]
		}
		return e.eval(pd.Body, ne, cur, old)
	}
	// datatype constructor / tester
	for _, dt := range e.spec.Datatypes {
		for _, c := range dt.Ctors {
			if c.Name == n.Fn {
				e.declDatatypes()
				as := args()
				var ts []string
				for i, a := range as {
					if i < len(c.Fields) && (c.Fields[i].Type == "bseq" || c.Fields[i].Type == "BSeq") && a.Sort != "BSeq" {
						ts = append(ts, e.bseqOf(a, cur))
					} else {
						ts = append(ts, a.T)
					}
				}
				if len(ts) == 0 {
					return &Val{T: c.Name, Sort: "D_" + dt.Name, KnownLen: -1}
				}
				return &Val{T: sx(c.Name, ts...), Sort: "D_" + dt.Name, KnownLen: -1}
			}
			if "is"+c.Name == n.Fn {
				e.declDatatypes()
				a := e.eval(n.Args[0], env, cur, old)
				return bval(fmt.Sprintf("((_ is %s) %s)", c.Name, a.T))
			}
		}
	}
	panic("unknown function " + n.Fn)
}

func typeArgName(x Expr) string {
	switch id := x.(type) {
	case *EIdent:
		return id.Name
	case *EUn:
		return "*" + typeArgName(id.X)
	case *ESel:
		return typeArgName(id.X) + "." + id.Name
	}
	panic("type argument expected")
}

func (e *Eng) dtAccessor(base *Val, field string) *Val {
	dtn := strings.TrimPrefix(base.Sort, "D_")
	for _, dt := range e.spec.Datatypes {
		if dt.Name != dtn {
			continue
		}
		for _, c := range dt.Ctors {
			for _, f := range c.Fields {
				if f.Name == field {
					t, srt := e.specType(f.Type)
					return &Val{T: sx(c.Name+"_"+f.Name, base.T), Typ: t, Sort: srtIfNil(t, srt), KnownLen: -1}
				}
			}
		}
	}
	panic("no accessor " + field + " on " + dtn)
}

func (e *Eng) declDatatypes() {
	if e.sc.declared["$datatypes"] {
		return
	}
	e.sc.declared["$datatypes"] = true
	for _, dt := range e.spec.Datatypes {
		var cs []string
		for _, c := range dt.Ctors {
			var fs []string
			for _, f := range c.Fields {
				_, srt := e.specType(f.Type)
				fs = append(fs, fmt.Sprintf("(%s_%s %s)", c.Name, f.Name, srt))
			}
			if len(fs) == 0 {
				cs = append(cs, "("+c.Name+")")
			} else {
				cs = append(cs, "("+c.Name+" "+strings.Join(fs, " ")+")")
			}
		}
		e.sc.prelude.WriteString(fmt.Sprintf("(declare-datatypes ((D_%s 0)) ((%s)))\n", dt.Name, strings.Join(cs, " ")))
	}
}

func (e *Eng) declTrace() {
	if e.sc.declared["$trace"] {
		return
	}
	e.declDatatypes()
	e.sc.declared["$trace"] = true
	elem := "Int"
	for _, dt := range e.spec.Datatypes {
		if dt.Name == "Event" {
			elem = "D_Event"
		}
	}
	e.sc.prelude.WriteString(fmt.Sprintf("(declare-datatypes ((Trace 0)) (((tnil) (snoc (t_init Trace) (t_last %s)))))\n", elem))
}

func (e *Eng) declMath() {
	if e.sc.declared["$math"] {
		return
	}
	e.sc.declared["$math"] = true
	e.sc.prelude.WriteString(`(declare-fun m_log (Real) Real)
(declare-fun m_log10 (Real) Real)
(declare-fun m_log2 (Real) Real)
`)
}

// autoDerefSlice: the name of an address-taken slice or map variable denotes its cell; where a slice (map) is needed
// (len, cap, indexing) the cell's content is meant, as for selectors on address-taken structs.
func (e *Eng) autoDerefSlice(v *Val, cur *State) *Val {
	if v == nil || v.Typ == nil {
		return v
	}
	pt := derefType(v.Typ)
	if pt == nil {
		return v
	}
	switch types.Unalias(pt).Underlying().(type) {
	case *types.Slice, *types.Map:
		return &Val{T: e.load(cur, e.locOfPtr(v)), Typ: pt, KnownLen: -1}
	}
	return v
}
