package main

import (
	"fmt"
	"go/token"
	"go/types"
	"strings"

	"golang.org/x/tools/go/ssa"
)

// Trusted model of github.com/google/btree.BTree (an external dependency): a tree is a finite set of item
// pointers plus its cardinality, held in two ghost regions. The contracts file fixes the item type and the
// order through two pure macros:
//
//	pure btreeLess(a *T, b *T) bool   -- what T's Less method computes (that method carries `ensures result == btreeLess(..)`)
//	pure btreeKeyEq(a *T, b *T) bool  -- neither is less than the other
//
// Model assumptions (listed in the evidence): the tree never holds two key-equal items; keys of items are not
// modified while the items are in the tree; ReplaceOrInsert replaces a key-equal item; Delete removes the
// key-equal item; Min/Max return a least/greatest item; Ascend*/Descend* call the iterator once per item of
// the range (each item at most once, all of them unless the iterator returns false).
// Every method dereferences its receiver: a nil tree is a panic obligation.
const btItems = "BT.items"
const btLen = "BT.len"
const btPrefix = "(*github.com/google/btree.BTree)."

func (e *Eng) btInit() {
	e.regInit(btItems, "(Array Int (Array Int Bool))")
	e.regInit(btLen, "(Array Int Int)")
}

// btItemType: the pointer type of the items, taken from the first parameter of pure btreeKeyEq.
func (e *Eng) btItemType() types.Type {
	pd, ok := e.spec.Pures["btreeKeyEq"]
	if !ok || len(pd.Params) != 2 {
		return nil
	}
	t, _ := e.specType(pd.Params[0].Type)
	return t
}

func (e *Eng) btPure(name string, a, b string, st *State) string {
	pd := e.spec.Pures[name]
	t := e.btItemType()
	env := e.newEnv()
	env.vars[pd.Params[0].Name] = &Val{T: a, Typ: t, KnownLen: -1}
	env.vars[pd.Params[1].Name] = &Val{T: b, Typ: t, KnownLen: -1}
	return e.eval(pd.Body, env, st, st).T
}

// btUnboxItem: the item pointer inside an Item interface value; obliges the dynamic type to be the item type.
func (e *Eng) btUnboxItem(fr *Frame, v *Val, what string, g string, pos token.Pos) string {
	t := e.btItemType()
	un := "unbox_" + typeKey(t)
	e.sc.declare(un, fmt.Sprintf("(declare-fun %s (Int) %s)", un, e.sortOf(t)))
	e.oblige("btree", what+": item is a non-nil "+t.String(), e.safety(fr), pos, g, and(not(eq(v.T, "0")), eq(sx("typeof", v.T), e.typeID(t))))
	return sx(un, v.T)
}

func (e *Eng) btBox(p string, name string) *Val {
	t := e.btItemType()
	ift := e.ld.typeOf("btree.Item")
	return e.makeIface(&Val{T: p, Typ: t, KnownLen: -1}, t, ift, name)
}

func (e *Eng) btRecv(fr *Frame, c *ssa.CallCommon, args []*Val, st *State, g string, pos token.Pos) string {
	e.btInit()
	e.oblige("nil", "btree:"+descr(c.Args[0], 0), e.safety(fr), pos, g, not(eq(args[0].T, "0")))
	t := args[0].T
	items := sel(e.get(st, btItems, e.regionSort[btItems]), t)
	n := sel(e.get(st, btLen, e.regionSort[btLen]), t)
	// cardinality facts of the model
	e.sc.assume(and(sx(">=", n, "0"),
		fmt.Sprintf("(forall ((p Int)) (! (=> (select %s p) (and (>= %s 1) (not (= p 0)))) :pattern ((select %s p))))", items, n, items)), "btree model: items are non-nil and counted")
	return t
}

func (e *Eng) btSetItems(st *State, t, items string, why string) {
	cur := e.get(st, btItems, e.regionSort[btItems])
	e.set(st, btItems, e.regionSort[btItems], sto(cur, t, items), why)
}

func (e *Eng) btSetLen(st *State, t, n string, why string) {
	cur := e.get(st, btLen, e.regionSort[btLen])
	e.set(st, btLen, e.regionSort[btLen], sto(cur, t, n), why)
}

func init() {
	mods := []string{btItems, btLen}
	reg([]string{"github.com/google/btree.New"}, []string{frRegion, btItems, btLen}, func(e *Eng, fr *Frame, c *ssa.CallCommon, args []*Val, st *State, g string, pos token.Pos) *Val {
		e.btInit()
		ref := e.alloc(st, "btree.New")
		e.btSetItems(st, ref, "((as const (Array Int Bool)) false)", "empty tree")
		e.btSetLen(st, ref, "0", "empty tree")
		return &Val{T: ref, Typ: c.Signature().Results().At(0).Type(), KnownLen: -1}
	})
	reg([]string{btPrefix + "Len"}, nil, func(e *Eng, fr *Frame, c *ssa.CallCommon, args []*Val, st *State, g string, pos token.Pos) *Val {
		t := e.btRecv(fr, c, args, st, g, pos)
		items := sel(e.get(st, btItems, e.regionSort[btItems]), t)
		n := e.sc.define("btlen", "Int", sel(e.get(st, btLen, e.regionSort[btLen]), t), "btree Len")
		e.sc.assume(implies(eq(n, "0"), fmt.Sprintf("(forall ((p Int)) (! (not (select %s p)) :pattern ((select %s p))))", items, items)), "btree model: length 0 means no items")
		return &Val{T: n, Typ: types.Typ[types.Int], KnownLen: -1}
	})
	reg([]string{btPrefix + "ReplaceOrInsert"}, mods, func(e *Eng, fr *Frame, c *ssa.CallCommon, args []*Val, st *State, g string, pos token.Pos) *Val {
		if e.btItemType() == nil {
			return nil
		}
		t := e.btRecv(fr, c, args, st, g, pos)
		p := e.btUnboxItem(fr, args[1], "ReplaceOrInsert", g, pos)
		items := sel(e.get(st, btItems, e.regionSort[btItems]), t)
		n := sel(e.get(st, btLen, e.regionSort[btLen]), t)
		old := e.sc.havoc("bt_replaced", "Int")
		keq := func(y string) string { return e.btPure("btreeKeyEq", y, p, st) }
		e.sc.assume(or(and(eq(old, "0"), fmt.Sprintf("(forall ((y Int)) (! (=> (select %s y) (not %s)) :pattern ((select %s y))))", items, keq("y"), items)),
			and(not(eq(old, "0")), sel(items, old), keq(old))), "btree model: ReplaceOrInsert returns the key-equal item it replaced, or nil")
		ni := e.sc.havoc("bt_items", "(Array Int Bool)")
		e.sc.assume(fmt.Sprintf("(forall ((y Int)) (! (= (select %s y) (or (= y %s) (and (select %s y) (not (= y %s))))) :pattern ((select %s y))))", ni, p, items, old, ni), "btree model: ReplaceOrInsert")
		e.btSetItems(st, t, ni, "ReplaceOrInsert")
		e.btSetLen(st, t, ite(eq(old, "0"), sx("+", n, "1"), n), "ReplaceOrInsert")
		res := ite(eq(old, "0"), "0", e.btBox(old, "bt_old").T)
		return &Val{T: res, Typ: c.Signature().Results().At(0).Type(), KnownLen: -1}
	})
	reg([]string{btPrefix + "Delete"}, mods, func(e *Eng, fr *Frame, c *ssa.CallCommon, args []*Val, st *State, g string, pos token.Pos) *Val {
		if e.btItemType() == nil {
			return nil
		}
		t := e.btRecv(fr, c, args, st, g, pos)
		p := e.btUnboxItem(fr, args[1], "Delete", g, pos)
		items := sel(e.get(st, btItems, e.regionSort[btItems]), t)
		n := sel(e.get(st, btLen, e.regionSort[btLen]), t)
		old := e.sc.havoc("bt_deleted", "Int")
		keq := func(y string) string { return e.btPure("btreeKeyEq", y, p, st) }
		e.sc.assume(or(and(eq(old, "0"), fmt.Sprintf("(forall ((y Int)) (! (=> (select %s y) (not %s)) :pattern ((select %s y))))", items, keq("y"), items)),
			and(not(eq(old, "0")), sel(items, old), keq(old))), "btree model: Delete returns the key-equal item it removed, or nil")
		ni := e.sc.havoc("bt_items", "(Array Int Bool)")
		e.sc.assume(fmt.Sprintf("(forall ((y Int)) (! (= (select %s y) (and (select %s y) (not (= y %s)))) :pattern ((select %s y))))", ni, items, old, ni), "btree model: Delete")
		e.btSetItems(st, t, ni, "Delete")
		e.btSetLen(st, t, ite(eq(old, "0"), n, sx("-", n, "1")), "Delete")
		res := ite(eq(old, "0"), "0", e.btBox(old, "bt_old").T)
		return &Val{T: res, Typ: c.Signature().Results().At(0).Type(), KnownLen: -1}
	})
	extreme := func(max, del bool) externHandler {
		return func(e *Eng, fr *Frame, c *ssa.CallCommon, args []*Val, st *State, g string, pos token.Pos) *Val {
			if e.btItemType() == nil {
				return nil
			}
			t := e.btRecv(fr, c, args, st, g, pos)
			items := sel(e.get(st, btItems, e.regionSort[btItems]), t)
			n := sel(e.get(st, btLen, e.regionSort[btLen]), t)
			r := e.sc.havoc("bt_extreme", "Int")
			var ord string
			if max {
				ord = e.btPure("btreeLess", r, "y", st)
			} else {
				ord = e.btPure("btreeLess", "y", r, st)
			}
			e.sc.assume(ite(eq(n, "0"), eq(r, "0"),
				and(not(eq(r, "0")), sel(items, r), fmt.Sprintf("(forall ((y Int)) (! (=> (select %s y) (not %s)) :pattern ((select %s y))))", items, ord, items))), "btree model: Min/Max")
			if del {
				ni := e.sc.havoc("bt_items", "(Array Int Bool)")
				e.sc.assume(fmt.Sprintf("(forall ((y Int)) (! (= (select %s y) (and (select %s y) (not (= y %s)))) :pattern ((select %s y))))", ni, items, r, ni), "btree model: DeleteMin/DeleteMax")
				e.btSetItems(st, t, ni, "DeleteMin/Max")
				e.btSetLen(st, t, ite(eq(r, "0"), n, sx("-", n, "1")), "DeleteMin/Max")
			}
			res := ite(eq(r, "0"), "0", e.btBox(r, "bt_ext").T)
			return &Val{T: res, Typ: c.Signature().Results().At(0).Type(), KnownLen: -1}
		}
	}
	reg([]string{btPrefix + "Max"}, nil, extreme(true, false))
	reg([]string{btPrefix + "Min"}, nil, extreme(false, false))
	reg([]string{btPrefix + "DeleteMax"}, mods, extreme(true, true))
	reg([]string{btPrefix + "DeleteMin"}, mods, extreme(false, true))
	reg([]string{btPrefix + "Has", btPrefix + "Get"}, nil, func(e *Eng, fr *Frame, c *ssa.CallCommon, args []*Val, st *State, g string, pos token.Pos) *Val {
		e.btRecv(fr, c, args, st, g, pos)
		return e.havocResults(c, st)
	})
	// iterations: Ascend(f) Descend(f) AscendRange(ge, lt, f) AscendGreaterOrEqual(p, f) AscendLessThan(p, f) and the Descend* twins
	iter := func(kind string) externHandler {
		return func(e *Eng, fr *Frame, c *ssa.CallCommon, args []*Val, st *State, g string, pos token.Pos) *Val {
			if e.btItemType() == nil {
				return nil
			}
			t := e.btRecv(fr, c, args, st, g, pos)
			clo := args[len(args)-1]
			if clo.Clo == nil {
				e.errf("btree iteration with a callback that is not a closure literal in %s", fnKey(fr.fn))
				return unit
			}
			var piv []string
			for i := 1; i < len(args)-1; i++ {
				piv = append(piv, e.btUnboxItem(fr, args[i], kind+" pivot", g, pos))
			}
			inRange := func(p string, s *State) string {
				less := func(a, b string) string { return e.btPure("btreeLess", a, b, s) }
				switch kind {
				case "AscendRange": // [ge, lt)
					return and(not(less(p, piv[0])), less(p, piv[1]))
				case "AscendGreaterOrEqual":
					return not(less(p, piv[0]))
				case "AscendLessThan":
					return less(p, piv[0])
				case "DescendRange": // (gt, le]
					return and(not(less(piv[0], p)), less(piv[1], p))
				case "DescendLessOrEqual":
					return not(less(piv[0], p))
				case "DescendGreaterThan":
					return less(piv[0], p)
				}
				return "true"
			}
			e.iterate(fr, c, kind, t, clo, inRange, st, g, pos)
			return unit
		}
	}
	for _, k := range []string{"Ascend", "Descend", "AscendRange", "AscendGreaterOrEqual", "AscendLessThan", "DescendRange", "DescendLessOrEqual", "DescendGreaterThan"} {
		reg([]string{btPrefix + k}, nil, iter(k))
	}
	// anything else on a tree (Clear, Clone, ...): the model does not know it, the tree becomes arbitrary
	reg([]string{btPrefix + "Clear", btPrefix + "Clone"}, mods, func(e *Eng, fr *Frame, c *ssa.CallCommon, args []*Val, st *State, g string, pos token.Pos) *Val {
		e.btRecv(fr, c, args, st, g, pos)
		e.havocReg(st, btItems)
		e.havocReg(st, btLen)
		e.note("btree method %s is not modelled: the trees become arbitrary", calleeName(c))
		return e.havocResults(c, st)
	})
}

// iterate: the rule for a callee that calls back once per element of a set (each element at most once, all of
// them unless the callback returns false). With I the conjunction of the `iter-invariant` clauses of the site
// (they may mention visited(p) and stopped()):
//
//	entry: I holds with nothing visited;
//	step:  from any state satisfying I (not stopped), for an arbitrary unvisited element of the set and range,
//	       running the callback re-establishes I with that element visited (stopped iff it returned false);
//	exit:  some state satisfying I in which either the iteration was stopped or every element of the range is visited.
func (e *Eng) iterate(fr *Frame, c *ssa.CallCommon, kind, t string, clo *Val, inRange func(p string, s *State) string, st *State, g string, pos token.Pos) {
	name := calleeName(c)
	var invs []*SiteSpec
	if fr.fspec != nil {
		for _, s := range fr.fspec.Sites {
			if s.Kind == "call" && s.Callee == name && s.Iter && (s.Ordinal == 0 || s.Ordinal == e.siteOrdinal(fr, "call", name)) {
				invs = append(invs, s)
			}
		}
	}
	if fr.fspec == nil {
		// the iteration sits in a helper without a contract that was inlined here: iteration invariants of the enclosing
		// contract name that function's locals and cannot be carried over; without them nothing can be said
		if sfr, _ := fr.specFrame(); sfr != nil {
			for _, s := range sfr.fspec.Sites {
				if s.Kind == "call" && s.Callee == name && s.Iter {
					e.errf("the %s iteration that %s's iteration invariants describe now sits in the helper %s: contract and code are out of step (undecided)", name, sfr.fspec.Key, fnKey(fr.fn))
					break
				}
			}
		}
	}
	evalInvs := func(s *State, visited, stopped string) []string {
		var out []string
		for _, iv := range invs {
			env := e.siteEnv(fr)
			env.iterVisited, env.iterStopped = visited, stopped
			out = append(out, e.evalClause(iv.Clause, env, s, fr.oldFor(s), fr))
			e.siteHit(iv)
		}
		return out
	}
	empty := "((as const (Array Int Bool)) false)"
	for i, tm := range evalInvs(st, empty, "false") {
		e.oblige("iter-entry", name+"/"+invs[i].Clause.Label, invs[i].Clause.Props, pos, g, tm)
	}
	// arbitrary intermediate state
	fn := clo.Clo.Fn
	oldFr := e.get(st, frRegion, "Int")
	mods := e.modSet(fn)
	gen := e.modGeneral[fn]
	if e.spec.Funcs[fnKey(fn)] == nil {
		// a callback without a contract of its own runs under the site clauses of the function it is written in
		if sf, _ := fr.specFrame(); sf != nil {
			extra, extraGen := map[string]bool{}, map[string]bool{}
			e.ghostSitesIn(fn, sf.fspec, extra, extraGen, 0)
			if len(extra) > 0 {
				nm, ng := map[string]bool{}, map[string]bool{}
				for k := range mods {
					nm[k] = true
				}
				for k := range gen {
					ng[k] = true
				}
				for k := range extra {
					nm[k], ng[k] = true, true
				}
				mods, gen = nm, ng
			}
		}
	}
	for _, r := range sortedKeys(mods) {
		if r == btItems || r == btLen {
			e.errf("the callback of %s modifies the tree it iterates over", name)
		}
		if gen != nil && !gen[r] && r != frRegion && r != clockRegion {
			e.havocRegFresh(st, r, oldFr)
		} else {
			e.havocReg(st, r)
		}
	}
	e.sc.assume(sx(">=", e.get(st, frRegion, "Int"), oldFr), "frontier monotone over iteration")
	visited := e.sc.havoc("it_visited", "(Array Int Bool)")
	stopped := e.sc.havoc("it_stopped", "Bool")
	items := sel(e.get(st, btItems, e.regionSort[btItems]), t)
	e.sc.assume(fmt.Sprintf("(forall ((p Int)) (! (=> (select %s p) (and (select %s p) %s)) :pattern ((select %s p))))", visited, items, inRange("p", st), visited), "iteration model: only items of the range are visited")
	// order: Ascend* call back in ascending, Descend* in descending order of Less: what has been visited is closed
	// under "comes earlier in the iteration", and the next item is the earliest unvisited one of the range
	earlier := func(a, b string, s *State) string {
		if strings.HasPrefix(kind, "Descend") {
			return e.btPure("btreeLess", b, a, s)
		}
		return e.btPure("btreeLess", a, b, s)
	}
	e.sc.assume(fmt.Sprintf("(forall ((p Int) (r Int)) (! (=> (and (select %s p) (select %s r) %s (select %s r) %s) (select %s p)) :pattern ((select %s r) (select %s p))))",
		items, items, inRange("p", st), visited, earlier("p", "r", st), visited, visited, items), "iteration model: items are visited in the order of Less")
	for i, tm := range evalInvs(st, visited, stopped) {
		e.sc.assume(implies(g, tm), "iteration invariant "+invs[i].Clause.Label)
	}
	// one more callback from that state (checked, then discarded)
	if len(e.inlineStack) < e.maxInline+2 {
		st2 := st.clone()
		p := e.sc.havoc("it_item", "Int")
		gi := and(g, not(stopped), sel(items, p), not(sel(visited, p)), inRange(p, st2),
			fmt.Sprintf("(forall ((r Int)) (! (=> (and (select %s r) %s (not (select %s r))) (not %s)) :pattern ((select %s r))))", items, inRange("r", st2), visited, earlier("r", p, st2), items))
		arg := e.btBox(p, "it_item")
		e.inlineStack = append(e.inlineStack, fn)
		e.sc.comment("callback " + fnKey(fn))
		var cfs *FuncSpec
		if fs := e.spec.Funcs[fnKey(fn)]; fs != nil {
			cfs = fs
		}
		e.pendingUp = fr
		res, out, outG := e.execFunc(fn, []*Val{arg}, clo.Clo.Bindings, st2, gi, fr.depth+1, cfs, e.namePrefix+"in:"+fnKey(fn)+"/")
		e.inlineStack = e.inlineStack[:len(e.inlineStack)-1]
		e.sc.comment("end callback " + fnKey(fn))
		v2 := sto(visited, p, "true")
		stop2 := "false"
		if len(res) == 1 {
			stop2 = not(res[0].T)
		}
		st2.reg = out.reg
		for i, tm := range evalInvs(st2, v2, stop2) {
			e.oblige("iter-step", name+"/"+invs[i].Clause.Label, invs[i].Clause.Props, pos, outG, tm)
		}
	}
	// exit
	e.sc.assume(implies(g, or(stopped, fmt.Sprintf("(forall ((p Int)) (! (=> (and (select %s p) %s) (select %s p)) :pattern ((select %s p))))", items, inRange("p", st), visited, items))), "iteration model: every item of the range is visited unless the callback stops")
	_ = strings.TrimSpace
}

// repeatCallback: the rule for an external callee that calls a closure of the caller any number of times with
// arguments constrained by argOK (rand.Shuffle). With I the conjunction of the `iter-invariant` clauses of the site:
//
//	entry: I holds at the call;
//	step:  from any state satisfying I, one call of the closure with arbitrary admissible arguments re-establishes I;
//	exit:  some state satisfying I (what the closure may write is arbitrary otherwise).
func (e *Eng) repeatCallback(fr *Frame, c *ssa.CallCommon, clo *Val, argOK func(i int, a string) string, st *State, g string, pos token.Pos) {
	name := calleeName(c)
	var invs []*SiteSpec
	sfr, own := fr.specFrame()
	if sfr != nil {
		for _, s := range sfr.fspec.Sites {
			if s.Kind == "call" && s.Callee == name && s.Iter && (s.Ordinal == 0 || (own && s.Ordinal == e.siteOrdinal(sfr, "call", name))) {
				invs = append(invs, s)
			}
		}
	}
	evalInvs := func(s *State) []string {
		var out []string
		for _, iv := range invs {
			env := e.siteEnv(sfr)
			out = append(out, e.evalClause(iv.Clause, env, s, sfr.oldFor(s), sfr))
			e.siteHit(iv)
		}
		return out
	}
	for i, tm := range evalInvs(st) {
		e.oblige("iter-entry", name+"/"+invs[i].Clause.Label, invs[i].Clause.Props, pos, g, tm)
	}
	fn := clo.Clo.Fn
	oldFr := e.get(st, frRegion, "Int")
	mods := e.modSet(fn)
	gen := e.modGeneral[fn]
	for _, r := range sortedKeys(mods) {
		if gen != nil && !gen[r] && r != frRegion && r != clockRegion {
			e.havocRegFresh(st, r, oldFr)
		} else {
			e.havocReg(st, r)
		}
	}
	e.sc.assume(sx(">=", e.get(st, frRegion, "Int"), oldFr), "frontier monotone over the repeated callback")
	for i, tm := range evalInvs(st) {
		e.sc.assume(implies(g, tm), "repeated-callback invariant "+invs[i].Clause.Label)
	}
	if len(e.inlineStack) < e.maxInline+2 {
		st2 := st.clone()
		var cargs []*Val
		gi := g
		for i, p := range fn.Params {
			v := e.havocVal(st2, "cb_"+p.Name(), p.Type())
			cargs = append(cargs, v)
			gi = and(gi, argOK(i, v.T))
		}
		e.inlineStack = append(e.inlineStack, fn)
		e.sc.comment("callback " + fnKey(fn))
		e.pendingUp = fr
		_, out, outG := e.execFunc(fn, cargs, clo.Clo.Bindings, st2, gi, fr.depth+1, e.spec.Funcs[fnKey(fn)], e.namePrefix+"in:"+fnKey(fn)+"/")
		e.inlineStack = e.inlineStack[:len(e.inlineStack)-1]
		e.sc.comment("end callback " + fnKey(fn))
		st2.reg = out.reg
		for i, tm := range evalInvs(st2) {
			e.oblige("iter-step", name+"/"+invs[i].Clause.Label, invs[i].Clause.Props, pos, outG, tm)
		}
	}
}
