package main

// Lock-level discipline (C20: "no public call ... ever deadlocks").
//
// Two families of obligations, both generated from the SSA of every function of the package on every run and
// checked against declarations in the contracts file:
//
//   lockorder  `//@ lockorder A < B < C`   a strict partial order on the mutexes of the package. Obligation at every
//              acquisition site (a Lock/RLock, or a call of a function that may acquire, with a lock held): every
//              lock held there is declared below the lock acquired. A cycle-free declared order and an obligation
//              at every site give the classical lock-level argument: no set of goroutines can wait on each other's
//              mutexes in a cycle.
//   lockwaits  `//@ lockwaits A: op, op, ...` what a goroutine may block on while it holds A (channel operations,
//              selects without default, WaitGroup.Wait, sleeps, network and user call-outs). Obligation at every
//              blocking site reached with a lock held: the operation is in the declared wait set of every held lock.
//
// Held sets are computed by a forward may-analysis over the CFG (deferred unlocks keep the lock to the end of
// the function, deferred calls run at the exits in LIFO order). What a callee may acquire / block on is a summary
// computed to a fixed point over static calls, closures, in-package implementations of in-package interfaces and
// function values resolved by signature among the address-taken functions of the package. `go` starts with no
// lock held. This is a per-site check against declared levels, not a search over schedules.

import (
	"fmt"
	"go/token"
	"go/types"
	"sort"
	"strings"

	"golang.org/x/tools/go/ssa"
)

type lockAnalysis struct {
	ld        *Loaded
	fns       []*ssa.Function
	acq       map[*ssa.Function]map[string]bool // locks a call of fn may acquire (transitively)
	blk       map[*ssa.Function]map[string]bool // blocking operations a call of fn may perform (transitively)
	addrTaken []*ssa.Function
	impls     map[string][]*ssa.Function // "Iface.Method" -> in-package implementations
	edges     map[string]lockSite        // "fn|held|acq" -> site
	waits     map[string]lockSite        // "fn|held|op" -> site
}

type lockSite struct {
	fn, held, what, via string
	pos                 token.Pos
}

var mutexMethods = map[string]string{
	"(*sync.Mutex).Lock": "Lock", "(*sync.Mutex).Unlock": "Unlock", "(*sync.Mutex).TryLock": "Lock",
	"(*sync.RWMutex).Lock": "Lock", "(*sync.RWMutex).Unlock": "Unlock",
	"(*sync.RWMutex).RLock": "RLock", "(*sync.RWMutex).RUnlock": "Unlock",
	"(*sync.RWMutex).TryLock": "Lock", "(*sync.RWMutex).TryRLock": "RLock",
}

// blocking standard-library / dependency calls (static callees); prefix match on the callee's String()
var blockingCalls = []string{
	"(*sync.WaitGroup).Wait", "(*sync.Cond).Wait", "time.Sleep",
	"net.Dial", "net.DialTimeout", "(*net.Dialer).Dial", "net.Listen", "net.ListenTCP", "net.ListenUDP", "net.LookupIP", "net.ResolveTCPAddr", "net.ResolveUDPAddr",
	"(*net.TCPConn).Read", "(*net.TCPConn).Write", "(*net.UDPConn).ReadFrom", "(*net.UDPConn).WriteTo", "(*net.TCPListener).AcceptTCP", "(*net.TCPListener).Accept",
	"io.ReadFull", "io.ReadAtLeast", "io.Copy", "io.CopyN", "io.ReadAll",
	"(*bufio.Reader).Read", "(*bufio.Reader).Peek", "(*bufio.Reader).ReadByte",
	"(*github.com/hashicorp/go-msgpack/v2/codec.Decoder).Decode",
}

func mutexKey(recv ssa.Value, fn *ssa.Function) string {
	switch x := recv.(type) {
	case *ssa.FieldAddr:
		st := x.X.Type().Underlying().(*types.Pointer).Elem()
		name := types.TypeString(st, func(p *types.Package) string { return "" })
		if n, ok := types.Unalias(st).(*types.Named); ok {
			name = n.Obj().Name()
		}
		return name + "." + st.Underlying().(*types.Struct).Field(x.Field).Name()
	case *ssa.Alloc:
		return "local:" + fnKey(fn) + ":" + x.Comment
	case *ssa.Global:
		return "global:" + x.Name()
	case *ssa.FreeVar:
		return "local:" + fnKey(rootParent(fn)) + ":" + x.Name()
	}
	return "unidentified:" + fnKey(fn)
}

func chanDesc(v ssa.Value) string {
	switch x := v.(type) {
	case *ssa.UnOp:
		if x.Op == token.MUL {
			if fa, ok := x.X.(*ssa.FieldAddr); ok {
				return mutexKey(fa, nil)
			}
			if fv, ok := x.X.(*ssa.FreeVar); ok {
				return "var:" + fv.Name()
			}
			if al, ok := x.X.(*ssa.Alloc); ok {
				return "var:" + al.Comment
			}
		}
	case *ssa.Parameter:
		return "param:" + x.Name()
	case *ssa.FreeVar:
		return "var:" + x.Name()
	case *ssa.MakeChan:
		return "local"
	case *ssa.Call:
		return "result:" + calleeName(x.Common())
	case *ssa.ChangeType:
		return chanDesc(x.X)
	case *ssa.Phi:
		var parts []string
		seen := map[string]bool{}
		for _, e := range x.Edges {
			if c, ok := e.(*ssa.Const); ok && c.IsNil() {
				continue
			}
			d := chanDesc(e)
			if !seen[d] {
				seen[d] = true
				parts = append(parts, d)
			}
		}
		sort.Strings(parts)
		return strings.Join(parts, "/")
	case *ssa.Field:
		return "field"
	case *ssa.Extract:
		return "tuple"
	}
	return "?"
}

func newLockAnalysis(ld *Loaded) *lockAnalysis {
	la := &lockAnalysis{ld: ld, acq: map[*ssa.Function]map[string]bool{}, blk: map[*ssa.Function]map[string]bool{},
		impls: map[string][]*ssa.Function{}, edges: map[string]lockSite{}, waits: map[string]lockSite{}}
	for _, k := range sortedKeys(ld.funcs) {
		fn := ld.funcs[k]
		if fn.Blocks == nil {
			continue
		}
		la.fns = append(la.fns, fn)
	}
	// address-taken functions: used as a value anywhere but in callee position
	taken := map[*ssa.Function]bool{}
	for _, fn := range la.fns {
		for _, b := range fn.Blocks {
			for _, ins := range b.Instrs {
				var callee ssa.Value
				switch x := ins.(type) {
				case *ssa.Call:
					callee = x.Common().Value
				case *ssa.Go:
					callee = x.Common().Value
				case *ssa.Defer:
					callee = x.Common().Value
				}
				for _, op := range ins.Operands(nil) {
					if op == nil || *op == nil {
						continue
					}
					v := *op
					if mc, ok := v.(*ssa.MakeClosure); ok {
						v = mc.Fn
					}
					if f, ok := v.(*ssa.Function); ok && (*op != callee) {
						if _, in := ld.funcs[fnKey(f)]; in {
							taken[f] = true
						}
					}
				}
				if mc, ok := ins.(*ssa.MakeClosure); ok {
					if f, ok := mc.Fn.(*ssa.Function); ok {
						// a closure that is only ever called directly is resolved statically; count it as taken when
						// some referrer is not a direct call
						direct := true
						for _, r := range *mc.Referrers() {
							switch c := r.(type) {
							case *ssa.Call:
								if c.Common().Value != mc {
									direct = false
								}
							case *ssa.Defer:
								if c.Common().Value != mc {
									direct = false
								}
							case *ssa.Go:
								if c.Common().Value != mc {
									direct = false
								}
							default:
								direct = false
							}
						}
						if !direct {
							taken[f] = true
						}
					}
				}
			}
		}
	}
	for f := range taken {
		la.addrTaken = append(la.addrTaken, f)
	}
	sort.Slice(la.addrTaken, func(i, j int) bool { return fnKey(la.addrTaken[i]) < fnKey(la.addrTaken[j]) })
	// in-package implementations of in-package interfaces
	scope := ld.pkg.Types.Scope()
	var ifaces, concretes []*types.Named
	for _, n := range scope.Names() {
		tn, ok := scope.Lookup(n).(*types.TypeName)
		if !ok {
			continue
		}
		nt, ok := types.Unalias(tn.Type()).(*types.Named)
		if !ok {
			continue
		}
		if _, isI := nt.Underlying().(*types.Interface); isI {
			ifaces = append(ifaces, nt)
		} else {
			concretes = append(concretes, nt)
		}
	}
	for _, it := range ifaces {
		iface := it.Underlying().(*types.Interface)
		for _, ct := range concretes {
			for _, T := range []types.Type{ct, types.NewPointer(ct)} {
				if !types.Implements(T, iface) {
					continue
				}
				ms := ld.prog.MethodSets.MethodSet(T)
				for i := 0; i < iface.NumMethods(); i++ {
					m := iface.Method(i)
					if sel := ms.Lookup(m.Pkg(), m.Name()); sel != nil {
						if f := ld.prog.MethodValue(sel); f != nil {
							k := it.Obj().Name() + "." + m.Name()
							dup := false
							for _, g := range la.impls[k] {
								if g == f {
									dup = true
								}
							}
							if !dup {
								la.impls[k] = append(la.impls[k], f)
							}
						}
					}
				}
				break
			}
		}
	}
	return la
}

// callTargets: the functions a call may run synchronously, and the opaque operations it stands for.
func (la *lockAnalysis) callTargets(fn *ssa.Function, c *ssa.CallCommon) (targets []*ssa.Function, ops []string) {
	if c.IsInvoke() {
		name := calleeName(c)
		if strings.Contains(name, ".") && !strings.Contains(strings.SplitN(name, ".", 2)[0], "/") {
			if fs, ok := la.impls[name]; ok {
				targets = append(targets, fs...)
			}
		}
		switch {
		case strings.HasPrefix(name, "error.") || strings.HasPrefix(name, "net.Addr.") || strings.HasPrefix(name, "fmt.") || strings.HasPrefix(name, "btree.") ||
			strings.HasPrefix(name, "hash.") || strings.HasPrefix(name, "cipher."):
			// pure accessors of standard interfaces
		case name == "net.Conn.Close" || name == "net.Conn.SetDeadline" || name == "net.Conn.RemoteAddr" || name == "net.Conn.LocalAddr" ||
			name == "net.Conn.SetReadDeadline" || name == "net.Conn.SetWriteDeadline" || name == "io.Closer.Close":
		default:
			ops = append(ops, "invoke:"+name)
		}
		return
	}
	if f := c.StaticCallee(); f != nil {
		if _, in := la.ld.funcs[fnKey(f)]; in && f.Blocks != nil {
			targets = append(targets, f)
			return
		}
		s := f.String()
		for _, b := range blockingCalls {
			if s == b || strings.HasPrefix(s, b+"$") {
				ops = append(ops, "call:"+strings.ReplaceAll(s, "github.com/hashicorp/go-msgpack/v2/codec", "codec"))
			}
		}
		// a function value handed to an external function runs inside it, unless it is known to run it later
		if s != "time.AfterFunc" {
			for _, a := range c.Args {
				if mc, ok := a.(*ssa.MakeClosure); ok {
					if g, ok := mc.Fn.(*ssa.Function); ok {
						targets = append(targets, g)
					}
				} else if g, ok := a.(*ssa.Function); ok && g.Blocks != nil {
					if _, in := la.ld.funcs[fnKey(g)]; in {
						targets = append(targets, g)
					}
				}
			}
		}
		return
	}
	if _, ok := c.Value.(*ssa.Builtin); ok {
		return
	}
	// function value: by signature among the address-taken functions of the package
	sig, _ := c.Value.Type().Underlying().(*types.Signature)
	if sig != nil {
		for _, g := range la.addrTaken {
			gs := g.Signature
			if types.Identical(types.NewSignatureType(nil, nil, nil, gs.Params(), gs.Results(), gs.Variadic()), types.NewSignatureType(nil, nil, nil, sig.Params(), sig.Results(), sig.Variadic())) {
				targets = append(targets, g)
			}
		}
	}
	if u, ok := c.Value.(*ssa.UnOp); ok && u.Op == token.MUL {
		if fa, ok := u.X.(*ssa.FieldAddr); ok {
			ops = append(ops, "dyn:"+mutexKey(fa, fn))
		}
	}
	return
}

// calleeOps: the blocking operations of a static callee as seen from a call site: a channel the callee knows only as
// its parameter is the channel the caller passes there (an extracted helper must not change what a wait is called).
func (la *lockAnalysis) calleeOps(t *ssa.Function, c *ssa.CallCommon) map[string]bool {
	src := la.blk[t]
	if c == nil || c.IsInvoke() || c.StaticCallee() != t {
		return src
	}
	out := map[string]bool{}
	for op := range src {
		i := strings.Index(op, ":param:")
		if i < 0 {
			out[op] = true
			continue
		}
		name := op[i+len(":param:"):]
		done := false
		for k, p := range t.Params {
			if p.Name() == name && k < len(c.Args) {
				out[op[:i+1]+chanDesc(c.Args[k])] = true
				done = true
			}
		}
		if !done {
			out[op] = true
		}
	}
	return out
}

func addAll(dst map[string]bool, src map[string]bool) bool {
	ch := false
	for k := range src {
		if !dst[k] {
			dst[k] = true
			ch = true
		}
	}
	return ch
}

// blockingOps: what a blocking instruction may wait on. A blocking select waits on each of its arms; arms that
// are timer channels (time.After, Timer.C, Ticker.C) bound the wait and are not reported.
func blockingOps(ins ssa.Instruction) []string {
	// a channel of time.Time values is a timer channel (time.After, Timer.C, Ticker.C, however it reached this point)
	timerChan := func(v ssa.Value) bool {
		if ch, ok := v.Type().Underlying().(*types.Chan); ok {
			if n, ok := types.Unalias(ch.Elem()).(*types.Named); ok && n.Obj().Pkg() != nil && n.Obj().Pkg().Path() == "time" && n.Obj().Name() == "Time" {
				return true
			}
		}
		return false
	}
	switch x := ins.(type) {
	case *ssa.UnOp:
		if x.Op == token.ARROW && !timerChan(x.X) {
			return []string{"recv:" + chanDesc(x.X)}
		}
	case *ssa.Send:
		return []string{"send:" + chanDesc(x.Chan)}
	case *ssa.Select:
		if !x.Blocking {
			return nil
		}
		var parts []string
		for _, s := range x.States {
			cd := chanDesc(s.Chan)
			if timerChan(s.Chan) {
				continue
			}
			d := "recv:"
			if s.Dir == types.SendOnly {
				d = "send:"
			}
			parts = append(parts, d+cd)
		}
		sort.Strings(parts)
		return parts
	}
	return nil
}

func (la *lockAnalysis) summaries() {
	for _, fn := range la.fns {
		la.acq[fn] = map[string]bool{}
		la.blk[fn] = map[string]bool{}
	}
	for changed := true; changed; {
		changed = false
		for _, fn := range la.fns {
			for _, b := range fn.Blocks {
				for _, ins := range b.Instrs {
					for _, op := range blockingOps(ins) {
						if !la.blk[fn][op] {
							la.blk[fn][op] = true
							changed = true
						}
					}
					var c *ssa.CallCommon
					switch x := ins.(type) {
					case *ssa.Call:
						c = x.Common()
					case *ssa.Defer:
						c = x.Common()
					}
					if c == nil {
						continue
					}
					if f := c.StaticCallee(); f != nil {
						if op, ok := mutexMethods[f.String()]; ok {
							if op != "Unlock" {
								k := mutexKey(c.Args[0], fn)
								if !la.acq[fn][k] {
									la.acq[fn][k] = true
									changed = true
								}
							}
							continue
						}
					}
					ts, ops := la.callTargets(fn, c)
					for _, o := range ops {
						if !la.blk[fn][o] {
							la.blk[fn][o] = true
							changed = true
						}
					}
					for _, t := range ts {
						if la.acq[t] == nil {
							continue
						}
						if addAll(la.acq[fn], la.acq[t]) {
							changed = true
						}
						if addAll(la.blk[fn], la.calleeOps(t, c)) {
							changed = true
						}
					}
				}
			}
		}
	}
}

type heldSet map[string]string // key -> "W" | "R"

func (h heldSet) clone() heldSet {
	n := heldSet{}
	for k, v := range h {
		n[k] = v
	}
	return n
}

func (la *lockAnalysis) recordAcquire(fn *ssa.Function, held heldSet, key, mode, via string, pos token.Pos) {
	for h, hm := range held {
		if h == key && hm == "R" && mode == "R" && via == "" {
			// a nested read lock of the same RWMutex in one function: flagged like any re-acquisition
		}
		k := fnKey(fn) + "|" + h + "|" + key
		if _, ok := la.edges[k]; !ok {
			la.edges[k] = lockSite{fn: fnKey(fn), held: h, what: key, via: via, pos: pos}
		}
	}
}

func (la *lockAnalysis) recordWait(fn *ssa.Function, held heldSet, op, via string, pos token.Pos) {
	for h := range held {
		k := fnKey(fn) + "|" + h + "|" + op
		if _, ok := la.waits[k]; !ok {
			la.waits[k] = lockSite{fn: fnKey(fn), held: h, what: op, via: via, pos: pos}
		}
	}
}

func (la *lockAnalysis) applyCall(fn *ssa.Function, held heldSet, c *ssa.CallCommon, pos token.Pos) {
	if len(held) == 0 {
		return
	}
	ts, ops := la.callTargets(fn, c)
	for _, o := range ops {
		la.recordWait(fn, held, o, "", pos)
	}
	for _, t := range ts {
		for _, k := range sortedKeys(la.acq[t]) {
			la.recordAcquire(fn, held, k, "W", fnKey(t), pos)
		}
		for _, o := range sortedKeys(la.calleeOps(t, c)) {
			la.recordWait(fn, held, o, fnKey(t), pos)
		}
	}
}

// sites: the forward analysis of every function.
func (la *lockAnalysis) sites() {
	for _, fn := range la.fns {
		in := map[*ssa.BasicBlock]heldSet{}
		out := map[*ssa.BasicBlock]heldSet{}
		var defers []*ssa.Defer
		for _, b := range fn.Blocks {
			for _, ins := range b.Instrs {
				if d, ok := ins.(*ssa.Defer); ok {
					defers = append(defers, d)
				}
			}
		}
		sort.Slice(defers, func(i, j int) bool { return defers[i].Pos() > defers[j].Pos() }) // LIFO
		transfer := func(b *ssa.BasicBlock, h heldSet, record bool) heldSet {
			h = h.clone()
			for _, ins := range b.Instrs {
				if record && len(h) > 0 {
					for _, op := range blockingOps(ins) {
						la.recordWait(fn, h, op, "", ins.Pos())
					}
				}
				switch x := ins.(type) {
				case *ssa.Call:
					c := x.Common()
					if f := c.StaticCallee(); f != nil {
						if op, ok := mutexMethods[f.String()]; ok {
							k := mutexKey(c.Args[0], fn)
							switch op {
							case "Lock", "RLock":
								if record {
									la.recordAcquire(fn, h, k, map[string]string{"Lock": "W", "RLock": "R"}[op], "", x.Pos())
								}
								h[k] = map[string]string{"Lock": "W", "RLock": "R"}[op]
							case "Unlock":
								delete(h, k)
							}
							continue
						}
					}
					if record {
						la.applyCall(fn, h, c, x.Pos())
					}
				case *ssa.RunDefers:
					hd := h.clone()
					for _, d := range defers {
						c := d.Common()
						if f := c.StaticCallee(); f != nil {
							if op, ok := mutexMethods[f.String()]; ok {
								if op == "Unlock" {
									delete(hd, mutexKey(c.Args[0], fn))
								}
								continue
							}
						}
						if record {
							la.applyCall(fn, hd, c, d.Pos())
						}
					}
				}
			}
			return h
		}
		for changed := true; changed; {
			changed = false
			for _, b := range fn.Blocks {
				h := heldSet{}
				for _, p := range b.Preds {
					for k, v := range out[p] {
						if old, ok := h[k]; !ok || old == "R" {
							h[k] = v
						}
					}
				}
				in[b] = h
				o := transfer(b, h, false)
				if fmt.Sprint(sortedHeld(o)) != fmt.Sprint(sortedHeld(out[b])) {
					out[b] = o
					changed = true
				}
			}
		}
		for _, b := range fn.Blocks {
			transfer(b, in[b], true)
		}
	}
}

func sortedHeld(h heldSet) []string {
	var s []string
	for k, v := range h {
		s = append(s, k+":"+v)
	}
	sort.Strings(s)
	return s
}

// lockDiscipline: the structural obligations of C20's deadlock clause.
func lockDiscipline(ld *Loaded, sf *SpecFile) []StructObl {
	la := newLockAnalysis(ld)
	la.summaries()
	la.sites()
	var out []StructObl
	// declared order: transitive closure, must be irreflexive
	less := map[string]map[string]bool{}
	for _, p := range sf.LockOrder {
		if less[p[0]] == nil {
			less[p[0]] = map[string]bool{}
		}
		less[p[0]][p[1]] = true
	}
	for changed := true; changed; {
		changed = false
		for a, bs := range less {
			for b := range bs {
				for c := range less[b] {
					if !less[a][c] {
						less[a][c] = true
						changed = true
					}
				}
			}
		}
	}
	acyclic := true
	for a := range less {
		if less[a][a] {
			acyclic = false
		}
	}
	out = append(out, StructObl{Name: "C20/lockorder/declared-order-is-strict", OK: acyclic && len(sf.LockOrder) > 0,
		Detail: fmt.Sprintf("the declared lock order (%d pairs) is a strict partial order", len(sf.LockOrder))})
	pos := func(p token.Pos) string {
		if !p.IsValid() {
			return ""
		}
		ps := ld.fset.Position(p)
		return fmt.Sprintf(" at %s:%d", shortFile(ps.Filename), ps.Line)
	}
	for _, k := range sortedKeys(la.edges) {
		s := la.edges[k]
		ok := less[s.held][s.what]
		det := fmt.Sprintf("%s acquires %s while holding %s", s.fn, s.what, s.held)
		if s.via != "" {
			det = fmt.Sprintf("%s calls %s, which may acquire %s, while holding %s", s.fn, s.via, s.what, s.held)
		}
		det += pos(s.pos)
		if s.held == s.what {
			det += ": re-acquisition of a lock already held (self-deadlock)"
		} else if !ok {
			det += ": not allowed by the declared lock order"
		}
		out = append(out, StructObl{Name: "C20/lockorder/" + s.fn + "/" + s.held + "<" + s.what, OK: ok, Detail: det})
	}
	for _, k := range sortedKeys(la.waits) {
		s := la.waits[k]
		ok := sf.LockWaits[s.held][s.what]
		det := fmt.Sprintf("%s may block on %s while holding %s", s.fn, s.what, s.held)
		if s.via != "" {
			det = fmt.Sprintf("%s calls %s, which may block on %s, while holding %s", s.fn, s.via, s.what, s.held)
		}
		det += pos(s.pos)
		if !ok {
			det += ": not in the declared wait set of " + s.held
		}
		out = append(out, StructObl{Name: "C20/lockwaits/" + s.fn + "/" + s.held + "/" + s.what, OK: ok, Detail: det})
	}
	return out
}

