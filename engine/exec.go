package main

import (
	"sort"
	"fmt"
	"go/constant"
	"go/token"
	"go/types"
	"math/big"
	"strings"

	"golang.org/x/tools/go/ssa"
)

const goDivPrelude = `(define-fun go_div ((a Int) (b Int)) Int (ite (> b 0) (ite (>= a 0) (div a b) (- (div (- a) b))) (ite (>= a 0) (- (div a (- b))) (div (- a) (- b)))))
(define-fun go_rem ((a Int) (b Int)) Int (- a (* b (go_div a b))))
(define-fun go_trunc ((x Real)) Int (ite (>= x 0.0) (to_int x) (- (to_int (- x)))))
`

// execFunc symbolically executes fn from state st under path guard `guard`.
// Returns result values, the merged exit state and the guard under which the
// function returns normally.
func (e *Eng) execFunc(fn *ssa.Function, args []*Val, bindings []*Val, st *State, guard string, depth int, fspec *FuncSpec, prefix string) ([]*Val, *State, string) {
	if len(fn.Blocks) == 0 {
		e.errf("function %s has no body", fn)
		return nil, st, guard
	}
	fr := &Frame{fn: fn, vals: map[ssa.Value]*Val{}, guard: map[*ssa.BasicBlock]string{}, in: map[*ssa.BasicBlock][]edgeIn{},
		depth: depth, prefix: prefix, fspec: fspec, loopOrd: map[*ssa.BasicBlock]int{}, descN: map[string]int{}, entryGuard: guard,
		inheritedNonNil: e.pendingNonNil, autoBounds: map[*ssa.BasicBlock]func(*State, map[*ssa.Phi]*Val, *ssa.BasicBlock, string){}, up: e.pendingUp}
	e.pendingNonNil = nil
	e.pendingUp = nil
	for i, p := range fn.Params {
		if i < len(args) {
			fr.vals[p] = args[i]
		}
	}
	fr.params = args
	fr.old = st.clone()
	if depth == 0 && len(e.inlineStack) == 0 {
		e.rootFrame = fr
	}
	for i, fv := range fn.FreeVars {
		if i < len(bindings) {
			fr.vals[fv] = bindings[i]
		} else {
			// free variable of a closure verified stand-alone: arbitrary value
			v := e.havocVal(st, "fv_"+fv.Name(), fv.Type())
			fr.vals[fv] = v
		}
	}
	// captured variables: closures hold a pointer to the variable's cell; contracts refer to the variable itself
	// (its value when the closure starts running)
	fr.freeVals = map[string]*Val{}
	for _, fv := range fn.FreeVars {
		cell := fr.vals[fv]
		if cell == nil {
			continue
		}
		if pt := derefType(fv.Type()); pt != nil {
			t := e.load(st, e.locOfPtr(cell))
			nm := e.sc.define("fv_"+fv.Name()+"_val", e.sortOf(pt), t, "captured variable "+fv.Name())
			v := &Val{T: nm, Typ: pt, KnownLen: -1}
			e.assumeWF(st, guard, v)
			fr.freeVals[fv.Name()] = v
		}
	}
	order, back := sortBlocksRPO(fn)
	// loop ordinals in source order of header position
	nl := 0
	for _, b := range fn.Blocks {
		for _, p := range b.Preds {
			if back[[2]int{p.Index, b.Index}] {
				if _, ok := fr.loopOrd[b]; !ok {
					nl++
					fr.loopOrd[b] = nl
				}
			}
		}
	}
	fr.in[fn.Blocks[0]] = []edgeIn{{from: nil, guard: guard, st: st}}
	savedPrefix := e.namePrefix
	e.namePrefix = prefix
	defer func() { e.namePrefix = savedPrefix }()

	for _, b := range order {
		if fn.Recover != nil && b == fn.Recover {
			continue
		}
		ins := fr.in[b]
		if len(ins) == 0 {
			continue
		}
		var gs []string
		for _, in := range ins {
			gs = append(gs, in.guard)
		}
		g := or(gs...)
		if g != "true" && g != "false" && len(g) > 40 {
			g = e.sc.define(fmt.Sprintf("g_%s_b%d", fn.Name(), b.Index), "Bool", g, "block guard")
		}
		fr.guard[b] = g
		fr.curBlock = b
		cur := e.mergeStates(ins)
		// phis
		var phis []*ssa.Phi
		for _, ins2 := range b.Instrs {
			if p, ok := ins2.(*ssa.Phi); ok {
				phis = append(phis, p)
			} else {
				break
			}
		}
		isHeader := false
		for _, p := range b.Preds {
			if back[[2]int{p.Index, b.Index}] {
				isHeader = true
			}
		}
		for _, p := range phis {
			fr.vals[p] = e.phiValue(fr, p, ins)
		}
		if isHeader {
			e.loopHeader(fr, b, phis, cur, g, back)
		}
		fr.curBlock = b
		e.sc.comment(fmt.Sprintf("---- %s block %d (%s)", fn.Name(), b.Index, b.Comment))
		terminated := false
		for _, ins2 := range b.Instrs {
			if _, ok := ins2.(*ssa.Phi); ok {
				continue
			}
			if e.execInstr(fr, b, ins2, cur, g, back) {
				terminated = true
				break
			}
		}
		_ = terminated
	}
	// merge returns
	if len(fr.rets) == 0 {
		return nil, st, "false"
	}
	var rins []edgeIn
	var rg []string
	for _, r := range fr.rets {
		rins = append(rins, edgeIn{guard: r.guard, st: r.st})
		rg = append(rg, r.guard)
	}
	out := e.mergeStates(rins)
	nres := fn.Signature.Results().Len()
	var results []*Val
	for i := 0; i < nres; i++ {
		rt := fn.Signature.Results().At(i).Type()
		if len(fr.rets) == 1 {
			results = append(results, fr.rets[0].vals[i])
			continue
		}
		t := fr.rets[len(fr.rets)-1].vals[i].T
		for j := len(fr.rets) - 2; j >= 0; j-- {
			t = ite(fr.rets[j].guard, fr.rets[j].vals[i].T, t)
		}
		nm := e.sc.define("ret_"+fn.Name(), e.sortOf(rt), t, "merged result")
		results = append(results, &Val{T: nm, Typ: rt, KnownLen: -1})
	}
	return results, out, or(rg...)
}

func (e *Eng) havocVal(st *State, prefix string, t types.Type) *Val {
	if tup, ok := t.(*types.Tuple); ok {
		v := &Val{Typ: t, KnownLen: -1}
		for i := 0; i < tup.Len(); i++ {
			v.Tup = append(v.Tup, e.havocVal(st, prefix, tup.At(i).Type()))
		}
		return v
	}
	n := e.sc.havoc(prefix, e.sortOf(t))
	v := &Val{T: n, Typ: t, KnownLen: -1}
	e.assumeWF(st, "true", v)
	return v
}

func (e *Eng) phiValue(fr *Frame, p *ssa.Phi, ins []edgeIn) *Val {
	blk := p.Block()
	type alt struct {
		g string
		v *Val
	}
	var alts []alt
	for _, in := range ins {
		idx := -1
		for i, pr := range blk.Preds {
			if pr == in.from {
				idx = i
				break
			}
		}
		if idx < 0 {
			continue
		}
		alts = append(alts, alt{in.guard, e.valOf(fr, in.st, p.Edges[idx])})
	}
	if len(alts) == 0 {
		return e.havocVal(&State{reg: map[string]string{}}, "phi", p.Type())
	}
	if len(alts) == 1 {
		return alts[0].v
	}
	allSame := true
	for _, a := range alts[1:] {
		if a.v.T != alts[0].v.T {
			allSame = false
		}
	}
	if allSame {
		return alts[0].v
	}
	t := alts[len(alts)-1].v.T
	for i := len(alts) - 2; i >= 0; i-- {
		t = ite(alts[i].g, alts[i].v.T, t)
	}
	nm := e.sc.define("phi_"+p.Comment, e.sortOf(p.Type()), t, "phi "+p.Name())
	v := &Val{T: nm, Typ: p.Type(), KnownLen: -1}
	// keep Loc / Clo only if identical in all alternatives
	if l := alts[0].v.Loc; l != nil {
		same := true
		for _, a := range alts[1:] {
			if a.v.Loc == nil || !sameLoc(a.v.Loc, l) {
				same = false
			}
		}
		if same {
			v.Loc = l
		} else if derefType(p.Type()) != nil && !isStructValue(derefType(p.Type())) {
			e.note("phi of distinct scalar addresses in %s (%s): accessed through generic cell", fr.fn.Name(), p.Name())
		}
	}
	return v
}

func sameLoc(a, b *Loc) bool {
	if a.Kind != b.Kind || a.Base != b.Base || a.Idx != b.Idx || a.IdxT != b.IdxT {
		return false
	}
	return true
}

// ---------- loops ----------

func (e *Eng) loopHeader(fr *Frame, h *ssa.BasicBlock, phis []*ssa.Phi, cur *State, g string, back map[[2]int]bool) {
	ord := fr.loopOrd[h]
	var invs []*Clause
	if fr.fspec != nil {
		invs = fr.fspec.LoopInvs[ord]
	}
	body := loopBody(h, back)
	// auto invariants: monotone counters
	type autoInv struct {
		phi  *ssa.Phi
		init string
	}
	var autos []autoInv
	for _, p := range phis {
		if !isInteger(p.Type()) {
			continue
		}
		okPat := true
		var initT string
		for i, pr := range h.Preds {
			edge := p.Edges[i]
			if back[[2]int{pr.Index, h.Index}] {
				if !isIncrementOf(edge, p) {
					okPat = false
				}
			} else {
				c, ok := edge.(*ssa.Const)
				if !ok || c.Value == nil {
					okPat = false
				} else {
					if initT != "" && initT != constIntTerm(c) {
						okPat = false
					}
					initT = constIntTerm(c)
				}
			}
		}
		if okPat && initT != "" {
			autos = append(autos, autoInv{p, initT})
		}
	}
	// auto candidate invariants for bottom-tested loops (e.g. `for i := range n`):
	// the back edge is taken only if next < N, so `phi < N` is proposed and *checked* like a written invariant
	type autoBound struct {
		phi *ssa.Phi
		op  token.Token
		n   ssa.Value
		top bool // top-tested counting loop: the proposed invariant is `phi <= N || phi == 0`
	}
	var bounds []autoBound
	// top-tested counting loops `for i := 0; i < N; i++`: the header itself decides on `phi < N` with N fixed in the
	// loop and phi a unit counter from 0; `phi <= N || phi == 0` holds on entry and is kept by every iteration
	if iff, ok := h.Instrs[len(h.Instrs)-1].(*ssa.If); ok {
		if bo, ok := iff.Cond.(*ssa.BinOp); ok && bo.Op == token.LSS {
			if p, ok := bo.X.(*ssa.Phi); ok && p.Block() == h && isUnitCounterFromZero(h, p) {
				fixed := true
				if ins, ok := bo.Y.(ssa.Instruction); ok && (body[ins.Block()] || ins.Block() == h) {
					fixed = false
				}
				if fixed && len(h.Succs) == 2 && body[h.Succs[0]] {
					bounds = append(bounds, autoBound{p, token.LSS, bo.Y, true})
				}
			}
		}
	}
	for _, p := range phis {
		if !isInteger(p.Type()) {
			continue
		}
		for i, pr := range h.Preds {
			if !back[[2]int{pr.Index, h.Index}] {
				continue
			}
			iff, ok := pr.Instrs[len(pr.Instrs)-1].(*ssa.If)
			if !ok || pr.Succs[0] != h {
				continue
			}
			bo, ok := iff.Cond.(*ssa.BinOp)
			if !ok || (bo.Op != token.LSS && bo.Op != token.LEQ) || bo.X != p.Edges[i] {
				continue
			}
			// N must be defined outside the loop
			if ins, ok := bo.Y.(ssa.Instruction); ok && body[ins.Block()] {
				continue
			}
			dup := false
			for _, b := range bounds {
				if b.phi == p && b.n == bo.Y && b.op == bo.Op {
					dup = true
				}
			}
			if !dup {
				bounds = append(bounds, autoBound{p, bo.Op, bo.Y, false})
			}
		}
	}
	boundTerm := func(b autoBound, v string) string {
		n := e.valOf(fr, cur, b.n)
		if b.top {
			return or(sx("<=", v, n.T), eq(v, "0"))
		}
		if b.op == token.LSS {
			return sx("<", v, n.T)
		}
		return sx("<=", v, n.T)
	}
	for _, b := range bounds {
		e.oblige("loop-entry", fmt.Sprintf("#%d/auto-bound:%s", ord, b.phi.Comment), e.safety(fr), h.Instrs[0].Pos(), g, boundTerm(b, fr.vals[b.phi].T))
	}
	fr.autoBounds[h] = func(st *State, vals map[*ssa.Phi]*Val, from *ssa.BasicBlock, guard string) {
		for _, b := range bounds {
			e.oblige("loop-step", fmt.Sprintf("#%d/auto-bound:%s", ord, b.phi.Comment), e.safety(fr), from.Instrs[len(from.Instrs)-1].Pos(), guard, boundTerm(b, vals[b.phi].T))
		}
	}
	// 1. entry obligations
	env := e.loopEnv(fr, h, phis, nil)
	if fr.fspec != nil {
		// shape clauses: what the invariants take for granted about the loop itself (e.g. where its counter starts).
		// They are checked like entry obligations, but a failure is reported as "contract out of step with the code"
		var ps []string
		for _, inv := range invs {
			ps = mergeProps(ps, inv.Props)
		}
		for _, sh := range fr.fspec.LoopShapes[ord] {
			func() {
				defer func() {
					if r := recover(); r != nil {
						e.errf("loop #%d shape clause %s cannot be evaluated (%v): the loop no longer has the shape its invariants were written for", ord, sh.Label, r)
					}
				}()
				t := e.evalClause(sh, env, cur, fr.oldFor(cur), fr)
				e.oblige("shape", fmt.Sprintf("#%d/%s", ord, sh.Label), mergeProps(ps, sh.Props), h.Instrs[0].Pos(), g, t)
			}()
		}
	}
	for _, inv := range invs {
		t := e.evalClause(inv, env, cur, fr.oldFor(cur), fr)
		e.oblige("loop-entry", fmt.Sprintf("#%d/%s", ord, inv.Label), inv.Props, h.Instrs[0].Pos(), g, t)
	}
	// 2. havoc
	oldFr := e.get(cur, frRegion, "Int")
	oldClock := e.get(cur, clockRegion, "Int")
	mods, gen := e.loopMods(fr, body)
	for _, r := range sortedKeys(mods) {
		if !gen[r] && r != frRegion && r != clockRegion {
			e.havocRegFresh(cur, r, oldFr)
		} else {
			e.havocReg(cur, r)
		}
	}
	if mods[frRegion] {
		e.sc.assume(sx(">=", e.get(cur, frRegion, "Int"), oldFr), "frontier monotone over loop")
	}
	if mods[clockRegion] {
		e.sc.assume(sx(">=", e.get(cur, clockRegion, "Int"), oldClock), "clock monotone over loop")
	}
	for _, p := range phis {
		old := fr.vals[p]
		nv := e.havocVal(cur, "lp_"+p.Comment, p.Type())
		// a pointer phi keeps static location info only if it was unambiguous
		_ = old
		fr.vals[p] = nv
	}
	for _, a := range autos {
		e.sc.assume(sx(">=", fr.vals[a.phi].T, a.init), "auto-invariant: counter "+a.phi.Comment+" never below its initial value")
	}
	for _, b := range bounds {
		e.sc.assume(implies(g, boundTerm(b, fr.vals[b.phi].T)), "auto-invariant (checked): "+b.phi.Comment+" below the loop bound")
	}
	env = e.loopEnv(fr, h, phis, nil)
	for _, inv := range invs {
		t := e.evalClause(inv, env, cur, fr.oldFor(cur), fr)
		e.sc.assume(implies(g, t), "loop invariant "+inv.Label)
	}
}

func isIncrementOf(v ssa.Value, p *ssa.Phi) bool {
	return isIncrementOfRec(v, p, map[ssa.Value]bool{}, 0)
}

func isIncrementOfRec(v ssa.Value, p *ssa.Phi, seen map[ssa.Value]bool, depth int) bool {
	for ; depth < 8; depth++ {
		if v == ssa.Value(p) {
			return true
		}
		if seen[v] {
			return false
		}
		seen[v] = true
		switch x := v.(type) {
		case *ssa.BinOp:
			if x.Op != token.ADD {
				return false
			}
			c, ok := x.Y.(*ssa.Const)
			if !ok || c.Value == nil || constant.Sign(c.Value) < 0 {
				return false
			}
			v = x.X
		case *ssa.Phi:
			// inner merge: all edges must be increments
			for _, ed := range x.Edges {
				if !isIncrementOfRec(ed, p, seen, depth+1) {
					return false
				}
			}
			return true
		default:
			return false
		}
	}
	return false
}

func constIntTerm(c *ssa.Const) string {
	if c.Value == nil || c.Value.Kind() != constant.Int {
		return ""
	}
	return bigLit(c.Value.ExactString())
}

// loopEnv: names visible in a loop invariant: parameters, phis (by source variable name)
func (e *Eng) loopEnv(fr *Frame, h *ssa.BasicBlock, phis []*ssa.Phi, override map[*ssa.Phi]*Val) *Env {
	env := e.funcEnv(fr)
	// phis of dominating headers first (farthest dominator first, so that the closest one wins), then own
	var doms []*ssa.BasicBlock
	for b := range fr.loopOrd {
		if b != h && b.Dominates(h) {
			doms = append(doms, b)
		}
	}
	sort.Slice(doms, func(i, j int) bool { return domDepth(doms[i]) < domDepth(doms[j]) })
	for _, b := range doms {
		if b != h && b.Dominates(h) {
			for _, ins := range b.Instrs {
				if p, ok := ins.(*ssa.Phi); ok && p.Comment != "" {
					if v, ok := fr.vals[p]; ok {
						env.vars[p.Comment] = v
					}
				}
			}
		}
	}
	for _, p := range phis {
		if p.Comment == "" {
			continue
		}
		name := strings.ReplaceAll(p.Comment, ".", "_")
		if override != nil {
			if v, ok := override[p]; ok {
				env.vars[p.Comment] = v
				env.vars[name] = v
				continue
			}
		}
		env.vars[p.Comment] = fr.vals[p]
		env.vars[name] = fr.vals[p]
	}
	// `rangeindex` in an invariant written for `for .. range xs` keeps its meaning (index of the last completed
	// iteration) when the loop is rewritten as `for i := 0; i < len(xs); i++`: it is i-1 for the loop's only counter
	// that starts at 0 and is advanced by exactly 1 per iteration.
	own := false
	for _, p := range phis {
		if p.Comment == "rangeindex" {
			own = true
		}
	}
	if !own {
		var cnt *ssa.Phi
		n := 0
		for _, p := range phis {
			if isUnitCounterFromZero(h, p) {
				cnt = p
				n++
			}
		}
		if n == 1 {
			v := fr.vals[cnt]
			if override != nil {
				if ov, ok := override[cnt]; ok {
					v = ov
				}
			}
			if v != nil {
				env.vars["rangeindex"] = &Val{T: sx("-", v.T, "1"), Typ: types.Typ[types.Int], KnownLen: -1}
				// `for range n` keeps its counter itself in rangeint.iter
				if _, has := env.vars["rangeint_iter"]; !has {
					env.vars["rangeint_iter"] = v
					env.vars["rangeint.iter"] = v
				}
			}
		}
	}
	return env
}

// isUnitCounterFromZero: an integer phi of header h that is 0 on every entry edge and phi+1 on every other edge.
func isUnitCounterFromZero(h *ssa.BasicBlock, p *ssa.Phi) bool {
	if !isInteger(p.Type()) || len(p.Edges) != len(h.Preds) {
		return false
	}
	entries, backs := 0, 0
	for _, edge := range p.Edges {
		if c, ok := edge.(*ssa.Const); ok {
			if c.Value == nil || constant.Sign(c.Value) != 0 {
				return false
			}
			entries++
			continue
		}
		b, ok := edge.(*ssa.BinOp)
		if !ok || b.Op != token.ADD || b.X != ssa.Value(p) {
			return false
		}
		c, ok := b.Y.(*ssa.Const)
		if !ok || c.Value == nil {
			return false
		}
		if c.Value.ExactString() != "1" {
			return false
		}
		backs++
	}
	return entries >= 1 && backs >= 1
}

func (e *Eng) backEdge(fr *Frame, from *ssa.BasicBlock, h *ssa.BasicBlock, st *State, guard string) {
	ord := fr.loopOrd[h]
	var invs []*Clause
	if fr.fspec != nil {
		invs = fr.fspec.LoopInvs[ord]
	}
	if ab := fr.autoBounds[h]; ab != nil {
		pi := -1
		for i, p := range h.Preds {
			if p == from {
				pi = i
			}
		}
		vals := map[*ssa.Phi]*Val{}
		for _, ins := range h.Instrs {
			if p, ok := ins.(*ssa.Phi); ok {
				vals[p] = e.valOf(fr, st, p.Edges[pi])
			}
		}
		ab(st, vals, from, guard)
	}
	if len(invs) == 0 {
		return
	}
	idx := -1
	for i, p := range h.Preds {
		if p == from {
			idx = i
		}
	}
	ov := map[*ssa.Phi]*Val{}
	var phis []*ssa.Phi
	for _, ins := range h.Instrs {
		if p, ok := ins.(*ssa.Phi); ok {
			phis = append(phis, p)
			ov[p] = e.valOf(fr, st, p.Edges[idx])
		}
	}
	env := e.loopEnv(fr, h, phis, ov)
	for _, inv := range invs {
		t := e.evalClause(inv, env, st, fr.oldFor(st), fr)
		e.oblige("loop-step", fmt.Sprintf("#%d/%s", ord, inv.Label), inv.Props, from.Instrs[len(from.Instrs)-1].Pos(), guard, t)
	}
}

// ---------- values ----------

func (e *Eng) valOf(fr *Frame, st *State, v ssa.Value) *Val {
	switch x := v.(type) {
	case *ssa.Const:
		return e.constVal(x)
	case *ssa.Function:
		return e.funcVal(x, nil)
	case *ssa.Global:
		name := "glob_" + sanitize(x.Name())
		e.sc.declConst(name, "Int")
		e.sc.declare(name+"_pos", fmt.Sprintf("(assert (< %s 0))", name))
		pt := derefType(x.Type())
		val := &Val{T: name, Typ: x.Type(), KnownLen: -1}
		if !isStructValue(pt) {
			val.Loc = &Loc{Kind: LCell, Base: name, ET: pt}
		}
		return val
	case *ssa.Builtin:
		return &Val{T: "0", Typ: x.Type(), KnownLen: -1}
	}
	if r, ok := fr.vals[v]; ok {
		return r
	}
	e.errf("value %s (%T) in %s used before definition (irreducible flow?)", v.Name(), v, fr.fn.Name())
	return e.havocVal(st, "undef", v.Type())
}

func (e *Eng) funcVal(fn *ssa.Function, bindings []*Val) *Val {
	name := "fn_" + sanitize(fnKey(fn))
	e.sc.declConst(name, "Int")
	e.sc.declare(name+"_nz", fmt.Sprintf("(assert (not (= %s 0)))", name))
	clo := &Closure{Fn: fn, Bindings: bindings}
	if len(bindings) == 0 {
		if e.cloByTerm == nil {
			e.cloByTerm = map[string]*Closure{}
		}
		e.cloByTerm[name] = clo
	}
	return &Val{T: name, Typ: fn.Type(), Clo: clo, KnownLen: -1}
}

func (e *Eng) constVal(c *ssa.Const) *Val {
	t := c.Type()
	v := &Val{Typ: t, KnownLen: -1}
	if c.Value == nil {
		v.T = e.zero(t)
		return v
	}
	switch c.Value.Kind() {
	case constant.Bool:
		if constant.BoolVal(c.Value) {
			v.T = "true"
		} else {
			v.T = "false"
		}
	case constant.String:
		s := constant.StringVal(c.Value)
		v.T = e.strLit(s)
		v.Lit = &s
	case constant.Int:
		if isFloat(t) {
			v.T = bigLit(c.Value.ExactString()) + ".0"
			if strings.HasPrefix(v.T, "(- ") {
				v.T = "(- " + c.Value.ExactString()[1:] + ".0)"
			}
		} else {
			v.T = bigLit(c.Value.ExactString())
		}
	case constant.Float:
		if isFloat(t) {
			v.T = ratLit(c.Value)
		} else {
			// integer typed constant expressed as float
			i, _ := constant.Int64Val(constant.ToInt(c.Value))
			v.T = intLit(i)
		}
	default:
		v.T = e.zero(t)
	}
	return v
}

func ratLit(c constant.Value) string {
	r := new(big.Rat)
	switch x := constant.Val(c).(type) {
	case *big.Rat:
		r = x
	case *big.Float:
		r, _ = x.Rat(nil)
	case int64:
		r.SetInt64(x)
	case *big.Int:
		r.SetInt(x)
	default:
		f, _ := constant.Float64Val(c)
		r.SetFloat64(f)
	}
	neg := r.Sign() < 0
	if neg {
		r = new(big.Rat).Neg(r)
	}
	s := fmt.Sprintf("(/ %s.0 %s.0)", r.Num().String(), r.Denom().String())
	if r.IsInt() {
		s = r.Num().String() + ".0"
	}
	if neg {
		s = "(- " + s + ")"
	}
	return s
}

// descr: a structural, line-independent description of an SSA value for obligation keys.
func descr(v ssa.Value, depth int) string {
	if depth > 6 {
		return "_"
	}
	switch x := v.(type) {
	case *ssa.Parameter:
		return x.Name()
	case *ssa.FreeVar:
		return x.Name()
	case *ssa.Const:
		if x.Value == nil {
			return "nil"
		}
		s := x.Value.ExactString()
		if len(s) > 20 {
			s = s[:20]
		}
		return s
	case *ssa.FieldAddr:
		st := structOf(derefType(x.X.Type()))
		return descr(x.X, depth+1) + "." + st.Field(x.Field).Name()
	case *ssa.Field:
		st := structOf(x.X.Type())
		return descr(x.X, depth+1) + "." + st.Field(x.Field).Name()
	case *ssa.UnOp:
		if x.Op == token.MUL {
			return descr(x.X, depth+1)
		}
		return x.Op.String() + descr(x.X, depth+1)
	case *ssa.IndexAddr:
		return descr(x.X, depth+1) + "[" + descr(x.Index, depth+1) + "]"
	case *ssa.Index:
		return descr(x.X, depth+1) + "[" + descr(x.Index, depth+1) + "]"
	case *ssa.Lookup:
		return descr(x.X, depth+1) + "[" + descr(x.Index, depth+1) + "]"
	case *ssa.Extract:
		return descr(x.Tuple, depth+1)
	case *ssa.Call:
		c := x.Common()
		if c.IsInvoke() {
			return descr(c.Value, depth+1) + "." + c.Method.Name() + "()"
		}
		if f := c.StaticCallee(); f != nil {
			return f.Name() + "()"
		}
		if b, ok := c.Value.(*ssa.Builtin); ok {
			var as []string
			for _, a := range c.Args {
				as = append(as, descr(a, depth+1))
			}
			return b.Name() + "(" + strings.Join(as, ",") + ")"
		}
		return descr(c.Value, depth+1) + "()"
	case *ssa.Phi:
		if x.Comment != "" {
			return x.Comment
		}
		return "phi"
	case *ssa.Alloc:
		if x.Comment != "" {
			return x.Comment
		}
		return "new"
	case *ssa.BinOp:
		return descr(x.X, depth+1) + x.Op.String() + descr(x.Y, depth+1)
	case *ssa.Slice:
		return descr(x.X, depth+1) + "[:]"
	case *ssa.Convert:
		return descr(x.X, depth+1)
	case *ssa.ChangeType:
		return descr(x.X, depth+1)
	case *ssa.TypeAssert:
		return descr(x.X, depth+1) + ".(T)"
	case *ssa.MakeInterface:
		return descr(x.X, depth+1)
	case *ssa.Global:
		return x.Name()
	case *ssa.Function:
		return x.Name()
	case *ssa.MakeSlice:
		return "make"
	}
	return "_"
}

// ---------- instruction semantics ----------

func (e *Eng) safety(fr *Frame) []string {
	return e.safetyProps
}

func (e *Eng) execInstr(fr *Frame, b *ssa.BasicBlock, ins ssa.Instruction, st *State, g string, back map[[2]int]bool) (terminated bool) {
	def := func(v ssa.Value, sortName, term string) *Val {
		n := e.sc.define(fr.fn.Name()+"_"+v.Name(), sortName, term, v.Name()+" = "+ins.String())
		r := &Val{T: n, Typ: v.Type(), KnownLen: -1}
		fr.vals[v] = r
		return r
	}
	switch x := ins.(type) {
	case *ssa.DebugRef:
		return false
	case *ssa.Alloc:
		pt := derefType(x.Type())
		ref := e.alloc(st, x.Comment)
		e.allocType[ref] = pt
		v := &Val{T: ref, Typ: x.Type(), KnownLen: -1}
		if a, ok := types.Unalias(pt).Underlying().(*types.Array); ok {
			v.Loc = &Loc{Kind: LArr, Base: ref, ET: a.Elem()}
			e.store(st, v.Loc, e.zero(pt), "zero array")
		} else if isStructValue(pt) {
			e.zeroObject(st, ref, pt, "zero "+x.Comment)
			if isNamed(pt, "bytes", "Buffer") {
				e.setStore(st, "BL", "(Array Int Int)", ref, "0", "empty bytes.Buffer")
				e.sc.declare("buf_adopted", "(declare-fun buf_adopted (Int) Bool)")
				e.sc.assume(not(sx("buf_adopted", ref)), "a zero bytes.Buffer owns whatever array it later allocates")
			}
		} else {
			v.Loc = &Loc{Kind: LCell, Base: ref, ET: pt}
			e.store(st, v.Loc, e.zero(pt), "zero cell")
		}
		fr.vals[x] = v
	case *ssa.FieldAddr:
		base := e.valOf(fr, st, x.X)
		stt := derefType(x.X.Type())
		if base.Loc == nil || (base.Loc.Kind != LElem && base.Loc.Kind != LPath && base.Loc.Kind != LField) {
			// the address of a slice element / struct field is never nil
			e.nilCheck(fr, x.Block(), base.T, descr(x.X, 0), x.Pos(), g)
		}
		fr.vals[x] = e.fieldAddr(base, stt, x.Field, x.Type())
	case *ssa.Field:
		sv := e.valOf(fr, st, x.X)
		name := e.structSort(x.X.Type(), structOf(x.X.Type()))
		def(x, e.sortOf(x.Type()), fmt.Sprintf("(%s_%d %s)", name, x.Field, sv.T))
	case *ssa.IndexAddr:
		base := e.valOf(fr, st, x.X)
		idx := e.valOf(fr, st, x.Index)
		var l *Loc
		switch u := types.Unalias(x.X.Type()).Underlying().(type) {
		case *types.Slice:
			e.oblige("index", descr(x.X, 0)+"["+descr(x.Index, 0)+"]", e.safety(fr), x.Pos(), g,
				and(sx("<=", "0", idx.T), sx("<", idx.T, sx("s_len", base.T))))
			l = &Loc{Kind: LElem, Base: sx("s_arr", base.T), IdxT: idxAt(sx("s_off", base.T), idx.T), ET: u.Elem()}
		case *types.Pointer:
			arr := u.Elem().Underlying().(*types.Array)
			e.nilCheck(fr, x.Block(), base.T, descr(x.X, 0), x.Pos(), g)
			if !(isNumLit(idx.T) && lessNum(idx.T, arr.Len())) {
				e.oblige("index", descr(x.X, 0)+"["+descr(x.Index, 0)+"]", e.safety(fr), x.Pos(), g,
					and(sx("<=", "0", idx.T), sx("<", idx.T, fmt.Sprint(arr.Len()))))
			}
			bl := e.locOfPtr(base)
			l = &Loc{Kind: LElem, Base: bl.Base, IdxT: idx.T, ET: arr.Elem()}
		}
		fr.vals[x] = e.ptrToLoc(l, x.Type())
	case *ssa.Index:
		base := e.valOf(fr, st, x.X)
		idx := e.valOf(fr, st, x.Index)
		switch u := types.Unalias(x.X.Type()).Underlying().(type) {
		case *types.Array:
			e.oblige("index", descr(x.X, 0)+"["+descr(x.Index, 0)+"]", e.safety(fr), x.Pos(), g,
				and(sx("<=", "0", idx.T), sx("<", idx.T, fmt.Sprint(u.Len()))))
			def(x, e.sortOf(x.Type()), sel(base.T, idx.T))
		default:
			e.errf("Index on %v", x.X.Type())
		}
	case *ssa.Lookup:
		base := e.valOf(fr, st, x.X)
		idx := e.valOf(fr, st, x.Index)
		if mt, ok := types.Unalias(x.X.Type()).Underlying().(*types.Map); ok {
			hr, hs, vr, vs := e.mapRegions(mt)
			has := sel(sel(e.get(st, hr, hs), base.T), idx.T)
			hasN := e.sc.define(fr.fn.Name()+"_"+x.Name()+"_has", "Bool", and(not(eq(base.T, "0")), has), "map has")
			val := ite(hasN, sel(sel(e.get(st, vr, vs), base.T), idx.T), e.zero(mt.Elem()))
			valV := def(x, e.sortOf(mt.Elem()), val)
			valV.Typ = mt.Elem()
			e.assumeWF(st, g, valV)
			if x.CommaOk {
				fr.vals[x] = &Val{Typ: x.Type(), Tup: []*Val{valV, {T: hasN, Typ: types.Typ[types.Bool], KnownLen: -1}}, KnownLen: -1}
			}
		} else {
			// string index
			e.oblige("index", descr(x.X, 0)+"["+descr(x.Index, 0)+"]", e.safety(fr), x.Pos(), g,
				and(sx("<=", "0", idx.T), sx("<", idx.T, sx("strlen", base.T))))
			v := def(x, "Int", sx("strat", base.T, idx.T))
			e.sc.assume(and(sx("<=", "0", v.T), sx("<=", v.T, "255")), "byte range")
		}
	case *ssa.UnOp:
		e.execUnOp(fr, x, st, g, def)
	case *ssa.BinOp:
		e.execBinOp(fr, x, st, g, def)
	case *ssa.Store:
		addr := e.valOf(fr, st, x.Addr)
		val := e.valOf(fr, st, x.Val)
		l := e.locOfPtr(addr)
		if addr.Loc == nil {
			e.nilCheck(fr, x.Block(), addr.T, descr(x.Addr, 0), x.Pos(), g)
		}
		e.checkProtectedWrite(fr, st, l, x.Pos(), g)
		e.store(st, l, val.T, ins.String())
		e.trackStoredVal(l, val)
	case *ssa.Phi:
		// handled at block entry
	case *ssa.Convert:
		e.execConvert(fr, x, st, g, def)
	case *ssa.ChangeType:
		src := e.valOf(fr, st, x.X)
		nv := *src
		nv.Typ = x.Type()
		fr.vals[x] = &nv
	case *ssa.ChangeInterface:
		src := e.valOf(fr, st, x.X)
		nv := *src
		nv.Typ = x.Type()
		fr.vals[x] = &nv
	case *ssa.MakeInterface:
		src := e.valOf(fr, st, x.X)
		fr.vals[x] = e.makeIface(src, x.X.Type(), x.Type(), fr.fn.Name()+"_"+x.Name())
	case *ssa.TypeAssert:
		e.execTypeAssert(fr, x, st, g, def)
	case *ssa.Extract:
		tup := e.valOf(fr, st, x.Tuple)
		if tup.Tup == nil || x.Index >= len(tup.Tup) {
			e.errf("extract from non-tuple %s in %s", x.Tuple.Name(), fr.fn.Name())
			fr.vals[x] = e.havocVal(st, "extract", x.Type())
		} else {
			fr.vals[x] = tup.Tup[x.Index]
		}
	case *ssa.Slice:
		e.execSlice(fr, x, st, g, def)
	case *ssa.MakeSlice:
		ln := e.valOf(fr, st, x.Len)
		cp := e.valOf(fr, st, x.Cap)
		et := types.Unalias(x.Type()).Underlying().(*types.Slice).Elem()
		e.oblige("make", "len:"+descr(x.Len, 0), e.safety(fr), x.Pos(), g, and(sx("<=", "0", ln.T), sx("<=", ln.T, cp.T)))
		fr.siteIns = x
		e.siteAsserts(fr, "make", descr(x.Len, 0), x.Pos(), st, g, map[string]*Val{"n": ln, "c": cp})
		fr.siteIns = nil
		ref := e.alloc(st, "makeslice")
		l := &Loc{Kind: LArr, Base: ref, ET: et}
		e.store(st, l, e.zero(types.NewArray(et, 0)), "zero slice")
		def(x, "Slice", fmt.Sprintf("(mk_slice %s 0 %s %s)", ref, ln.T, cp.T))
	case *ssa.MakeMap:
		mt := types.Unalias(x.Type()).Underlying().(*types.Map)
		ref := e.alloc(st, "makemap")
		hr, hs, _, _ := e.mapRegions(mt)
		e.set(st, hr, hs, sto(e.get(st, hr, hs), ref, fmt.Sprintf("((as const (Array %s Bool)) false)", e.sortOf(mt.Key()))), "empty map")
		lr, ls := e.mapLenRegion(mt)
		e.set(st, lr, ls, sto(e.get(st, lr, ls), ref, "0"), "empty map len")
		def(x, "Int", ref)
	case *ssa.MakeChan:
		sz := e.valOf(fr, st, x.Size)
		if !isNumLit(sz.T) {
			e.oblige("make", "chan:"+descr(x.Size, 0), e.safety(fr), x.Pos(), g, sx(">=", sz.T, "0"))
		}
		ref := e.alloc(st, "makechan")
		e.set(st, chanClosedRegion, "(Array Int Bool)", sto(e.get(st, chanClosedRegion, "(Array Int Bool)"), ref, "false"), "open chan")
		def(x, "Int", ref)
	case *ssa.MakeClosure:
		fn := x.Fn.(*ssa.Function)
		var bs []*Val
		for _, bv := range x.Bindings {
			bs = append(bs, e.valOf(fr, st, bv))
		}
		ref := e.alloc(st, "closure")
		clo := &Closure{Fn: fn, Bindings: bs}
		if e.cloByTerm == nil {
			e.cloByTerm = map[string]*Closure{}
		}
		e.cloByTerm[ref] = clo
		fr.vals[x] = &Val{T: ref, Typ: x.Type(), Clo: clo, KnownLen: -1}
	case *ssa.MapUpdate:
		m := e.valOf(fr, st, x.Map)
		k := e.valOf(fr, st, x.Key)
		v := e.valOf(fr, st, x.Value)
		mt := types.Unalias(x.Map.Type()).Underlying().(*types.Map)
		e.oblige("nilmap", descr(x.Map, 0), e.safety(fr), x.Pos(), g, not(eq(m.T, "0")))
		e.checkProtectedRegionWrite(fr, st, "MH."+typeKey(mt.Key())+"."+typeKey(mt.Elem()), x.Pos(), g)
		e.mapStore(st, mt, m.T, k.T, v.T)
		if e.allocRefs[v.T] {
			e.published[v.T] = true
		}
	case *ssa.Range:
		src := e.valOf(fr, st, x.X)
		fr.vals[x] = &Val{T: src.T, Typ: x.X.Type(), KnownLen: -1}
	case *ssa.Next:
		it := e.valOf(fr, st, x.Iter)
		tup := x.Type().(*types.Tuple)
		ok := e.havocVal(st, "next_ok", types.Typ[types.Bool])
		var k, v *Val
		if x.IsString {
			k = e.havocVal(st, "next_i", types.Typ[types.Int])
			v = e.havocVal(st, "next_r", types.Typ[types.Int32])
		} else {
			mt := types.Unalias(it.Typ).Underlying().(*types.Map)
			if isInvalid(tup.At(1).Type()) {
				k = &Val{T: "0", Typ: mt.Key(), KnownLen: -1}
			}
			kk := e.havocVal(st, "next_k", mt.Key())
			hr, hs, vr, vs := e.mapRegions(mt)
			e.sc.assume(implies(ok.T, and(not(eq(it.T, "0")), sel(sel(e.get(st, hr, hs), it.T), kk.T))), "range yields present keys")
			k = kk
			vt := e.sc.define("next_v", e.sortOf(mt.Elem()), sel(sel(e.get(st, vr, vs), it.T), kk.T), "range value")
			v = &Val{T: vt, Typ: mt.Elem(), KnownLen: -1}
			e.assumeWF(st, g, v)
		}
		fr.vals[x] = &Val{Typ: x.Type(), Tup: []*Val{ok, k, v}, KnownLen: -1}
	case *ssa.Call:
		res := e.execCall(fr, x, x.Common(), st, g, false)
		if res != nil {
			fr.vals[x] = res
		}
	case *ssa.Go:
		e.note("goroutine spawn in %s: %s (body verified separately if under contract; spawn contributes nothing to the caller)", fnKey(fr.fn), calleeName(x.Common()))
		fr.siteIns = x
		gomap := map[string]*Val{}
		for i, a := range x.Common().Args {
			av := e.valOf(fr, st, a)
			gomap[fmt.Sprintf("arg%d", i)] = av
			if f := x.Common().StaticCallee(); f != nil && i < len(f.Params) {
				gomap[f.Params[i].Name()] = av
			}
		}
		e.siteAsserts(fr, "go", calleeName(x.Common()), x.Pos(), st, g, gomap)
		e.siteSetsWhen(fr, "go", calleeName(x.Common()), st, g, nil, false)
		fr.siteIns = nil
	case *ssa.Defer:
		d := deferred{call: x, guard: g, block: b}
		c := x.Common()
		if !c.IsInvoke() {
			d.fnv = e.valOf(fr, st, c.Value)
		} else {
			d.fnv = e.valOf(fr, st, c.Value)
		}
		for _, a := range c.Args {
			d.args = append(d.args, e.valOf(fr, st, a))
		}
		fr.defers = append(fr.defers, d)
	case *ssa.RunDefers:
		// deferred calls of the root function run right before it returns: nothing of the root executes after them
		if fr.depth == 0 {
			e.atRootExit = true
			defer func() { e.atRootExit = false }()
		}
		for i := len(fr.defers) - 1; i >= 0; i-- {
			d := fr.defers[i]
			if d.block != b && !d.block.Dominates(b) {
				// conditional defer: execute under its guard and merge
				before := st.clone()
				e.execCallWith(fr, d.call, d.call.Common(), d.fnv, d.args, st, and(g, d.guard), true)
				merged := e.mergeStates([]edgeIn{{guard: d.guard, st: st}, {guard: "true", st: before}})
				st.reg = merged.reg
				continue
			}
			e.execCallWith(fr, d.call, d.call.Common(), d.fnv, d.args, st, g, true)
		}
	case *ssa.Return:
		var vals []*Val
		for _, r := range x.Results {
			vals = append(vals, e.valOf(fr, st, r))
		}
		fr.rets = append(fr.rets, retInfo{guard: g, vals: vals, st: st.clone()})
		return true
	case *ssa.Panic:
		key := descr(x.X, 0)
		if mi, ok := x.X.(*ssa.MakeInterface); ok {
			if c, ok := mi.X.(*ssa.Const); ok && c.Value != nil && c.Value.Kind() == constant.String {
				key = truncStr(constant.StringVal(c.Value), 40)
			}
		}
		if fr.fspec != nil && fr.fspec.PanicsDocumented {
			e.note("documented panic in %s: %s", fnKey(fr.fn), key)
		} else {
			e.oblige("panic", key, e.safety(fr), x.Pos(), g, "false")
		}
		return true
	case *ssa.Jump:
		e.addEdge(fr, b, b.Succs[0], st, g, back)
		return true
	case *ssa.If:
		c := e.valOf(fr, st, x.Cond)
		e.addEdge(fr, b, b.Succs[0], st, and(g, c.T), back)
		e.addEdge(fr, b, b.Succs[1], st, and(g, not(c.T)), back)
		return true
	case *ssa.Send:
		ch := e.valOf(fr, st, x.Chan)
		_ = ch
		e.note("channel send in %s abstracted (no effect)", fnKey(fr.fn))
	case *ssa.Select:
		n := len(x.States)
		idx := e.havocVal(st, "sel_idx", types.Typ[types.Int])
		lo := "0"
		if !x.Blocking {
			lo = "(- 1)"
		}
		e.sc.assume(and(sx("<=", lo, idx.T), sx("<", idx.T, fmt.Sprint(n))), "select index")
		tup := x.Type().(*types.Tuple)
		vals := []*Val{idx, e.havocVal(st, "sel_ok", types.Typ[types.Bool])}
		for i := 2; i < tup.Len(); i++ {
			vals = append(vals, e.havocVal(st, "sel_recv", tup.At(i).Type()))
		}
		fr.vals[x] = &Val{Typ: x.Type(), Tup: vals, KnownLen: -1}
		e.note("select in %s abstracted (any ready case)", fnKey(fr.fn))
	default:
		e.errf("unsupported instruction %T in %s: %s", ins, fr.fn.Name(), ins)
		if v, ok := ins.(ssa.Value); ok {
			fr.vals[v] = e.havocVal(st, "unsup", v.Type())
		}
	}
	return false
}

func isInvalid(t types.Type) bool {
	b, ok := t.(*types.Basic)
	return ok && b.Kind() == types.Invalid
}

func (e *Eng) addEdge(fr *Frame, from, to *ssa.BasicBlock, st *State, guard string, back map[[2]int]bool) {
	if guard == "false" {
		return
	}
	if back[[2]int{from.Index, to.Index}] {
		e.backEdge(fr, from, to, st, guard)
		return
	}
	gn := guard
	if len(guard) > 60 {
		gn = e.sc.define(fmt.Sprintf("e_%s_%d_%d", fr.fn.Name(), from.Index, to.Index), "Bool", guard, "edge guard")
	}
	fr.in[to] = append(fr.in[to], edgeIn{from: from, guard: gn, st: st.clone()})
}

func (e *Eng) fieldAddr(base *Val, stt types.Type, idx int, ptrType types.Type) *Val {
	s := structOf(stt)
	ft := s.Field(idx).Type()
	// base designating a struct value stored in an element / cell / path
	if base.Loc != nil && (base.Loc.Kind == LElem || base.Loc.Kind == LPath) && base.Loc.Kind != LField {
		var l *Loc
		if base.Loc.Kind == LPath {
			l = &Loc{Kind: LPath, Root: base.Loc.Root, Path: append(append([]int{}, base.Loc.Path...), idx), PT: append(append([]types.Type{}, base.Loc.PT...), stt), ET: ft}
		} else {
			l = &Loc{Kind: LPath, Root: base.Loc, Path: []int{idx}, PT: []types.Type{stt}, ET: ft}
		}
		return &Val{T: e.ptrTerm(l), Typ: ptrType, Loc: l, KnownLen: -1}
	}
	if isStructValue(ft) {
		return &Val{T: e.subPtr(stt, idx, base.T), Typ: ptrType, KnownLen: -1}
	}
	l := &Loc{Kind: LField, Base: base.T, ST: stt, Idx: idx, ET: ft}
	return &Val{T: e.ptrTerm(l), Typ: ptrType, Loc: l, KnownLen: -1}
}

func (e *Eng) ptrTerm(l *Loc) string {
	switch l.Kind {
	case LField:
		fn := "fldptr_" + sanitize(e.structName(l.ST)) + "_" + structOf(l.ST).Field(l.Idx).Name()
		e.sc.declare(fn, fmt.Sprintf("(declare-fun %s (Int) Int)", fn))
		return sx(fn, l.Base)
	case LElem:
		e.sc.declare("elemptr", "(declare-fun elemptr (Int Int) Int)")
		return sx("elemptr", l.Base, l.IdxT)
	case LPath:
		e.sc.declare("pathptr", "(declare-fun pathptr (Int Int) Int)")
		return sx("pathptr", e.ptrTerm(l.Root), fmt.Sprint(l.Path))
	}
	return l.Base
}

func (e *Eng) ptrToLoc(l *Loc, ptrType types.Type) *Val {
	t := e.ptrTerm(l)
	if l.Kind == LPath {
		t = "0"
		e.sc.declare("pathptr1", "(declare-fun pathptr1 (Int) Int)")
		t = sx("pathptr1", e.ptrTerm(l.Root))
	}
	return &Val{T: t, Typ: ptrType, Loc: l, KnownLen: -1}
}

// a freshly allocated object whose reference is stored into the heap may become visible to other goroutines
func (e *Eng) trackStoredVal(l *Loc, v *Val) {
	if e.allocRefs[v.T] {
		// stores into the function's own (still unpublished) locals do not publish
		if l != nil && (l.Kind == LCell || l.Kind == LField) && e.allocRefs[l.Base] && !e.published[l.Base] {
			return
		}
		e.published[v.T] = true
	}
}

func (e *Eng) mapStore(st *State, mt *types.Map, m, k, v string) {
	hr, hs, vr, vs := e.mapRegions(mt)
	hcur := e.get(st, hr, hs)
	had := sel(sel(hcur, m), k)
	lr, ls := e.mapLenRegion(mt)
	lcur := e.get(st, lr, ls)
	e.set(st, lr, ls, sto(lcur, m, sx("+", sel(lcur, m), ite(had, "0", "1"))), "map len")
	e.set(st, hr, hs, sto(hcur, m, sto(sel(hcur, m), k, "true")), "map insert")
	vcur := e.get(st, vr, vs)
	e.set(st, vr, vs, sto(vcur, m, sto(sel(vcur, m), k, v)), "map insert value")
}

func (e *Eng) mapDelete(st *State, mt *types.Map, m, k string) {
	hr, hs, _, _ := e.mapRegions(mt)
	hcur := e.get(st, hr, hs)
	had := and(not(eq(m, "0")), sel(sel(hcur, m), k))
	lr, ls := e.mapLenRegion(mt)
	lcur := e.get(st, lr, ls)
	e.set(st, lr, ls, ite(eq(m, "0"), lcur, sto(lcur, m, sx("-", sel(lcur, m), ite(had, "1", "0")))), "map len")
	e.set(st, hr, hs, ite(eq(m, "0"), hcur, sto(hcur, m, sto(sel(hcur, m), k, "false"))), "map delete")
}

func (e *Eng) makeIface(src *Val, srcT types.Type, ifT types.Type, name string) *Val {
	if _, ok := types.Unalias(srcT).Underlying().(*types.Interface); ok {
		nv := *src
		nv.Typ = ifT
		return &nv
	}
	k := typeKey(srcT)
	box, unbox := "box_"+k, "unbox_"+k
	srt := e.sortOf(srcT)
	e.sc.declare(box, fmt.Sprintf("(declare-fun %s (%s) Int)", box, srt))
	e.sc.declare(unbox, fmt.Sprintf("(declare-fun %s (Int) %s)", unbox, srt))
	b := e.sc.define("if_"+name, "Int", sx(box, src.T), "make interface")
	e.sc.assume(and(not(eq(b, "0")), eq(sx("typeof", b), e.typeID(srcT)), eq(sx(unbox, b), src.T)), "boxed value")
	return &Val{T: b, Typ: ifT, KnownLen: -1, Lit: src.Lit, Boxed: src}
}

func (e *Eng) execTypeAssert(fr *Frame, x *ssa.TypeAssert, st *State, g string, def func(ssa.Value, string, string) *Val) {
	src := e.valOf(fr, st, x.X)
	var ok, val string
	at := x.AssertedType
	if _, isIf := types.Unalias(at).Underlying().(*types.Interface); isIf {
		fn := "implements_" + typeKey(at)
		e.sc.declare(fn, fmt.Sprintf("(declare-fun %s (Int) Bool)", fn))
		ok = and(not(eq(src.T, "0")), sx(fn, sx("typeof", src.T)))
		val = src.T
	} else {
		k := typeKey(at)
		unbox := "unbox_" + k
		e.sc.declare(unbox, fmt.Sprintf("(declare-fun %s (Int) %s)", unbox, e.sortOf(at)))
		ok = and(not(eq(src.T, "0")), eq(sx("typeof", src.T), e.typeID(at)))
		val = sx(unbox, src.T)
		if derefType(at) != nil && types.TypeString(x.X.Type(), nil) == "error" {
			// assumption: error values are never typed-nil pointers
			e.sc.assume(implies(ok, not(eq(val, "0"))), "error interface does not hold a typed nil pointer")
			e.note("assumed: an error interface value never holds a typed-nil pointer (type switches on errors dereference the pointer)")
		}
	}
	okN := e.sc.define(fr.fn.Name()+"_"+x.Name()+"_ok", "Bool", ok, "type assert ok")
	if x.CommaOk {
		vv := e.sc.define(fr.fn.Name()+"_"+x.Name(), e.sortOf(at), ite(okN, val, e.zero(at)), "type assert value")
		v := &Val{T: vv, Typ: at, KnownLen: -1}
		e.assumeWF(st, g, v)
		fr.vals[x] = &Val{Typ: x.Type(), Tup: []*Val{v, {T: okN, Typ: types.Typ[types.Bool], KnownLen: -1}}, KnownLen: -1}
		return
	}
	e.oblige("typeassert", descr(x.X, 0), e.safety(fr), x.Pos(), g, okN)
	v := def(x, e.sortOf(at), val)
	v.Typ = at
	e.assumeWF(st, g, v)
}

func (e *Eng) execUnOp(fr *Frame, x *ssa.UnOp, st *State, g string, def func(ssa.Value, string, string) *Val) {
	src := e.valOf(fr, st, x.X)
	switch x.Op {
	case token.MUL: // load
		l := e.locOfPtr(src)
		if src.Loc == nil {
			e.nilCheck(fr, x.Block(), src.T, descr(x.X, 0), x.Pos(), g)
		}
		t := e.load(st, l)
		v := def(x, e.sortOf(x.Type()), t)
		if c, ok := e.cloByTerm[t]; ok {
			// a function value read back from a cell that provably holds this very function / closure
			v.Clo = c
		}
		e.assumeWF(st, g, v)
	case token.NOT:
		def(x, "Bool", not(src.T))
	case token.SUB:
		if isFloat(x.Type()) {
			def(x, "Real", sx("-", src.T))
		} else if m, ok := unsignedModulus(x.Type()); ok {
			def(x, "Int", sx("mod", sx("-", src.T), m))
		} else {
			def(x, "Int", sx("-", src.T))
		}
	case token.XOR:
		v := def(x, "Int", sx("uf_bitxor", src.T, "(- 1)"))
		e.assumeWF(st, g, v)
	case token.ARROW:
		e.note("channel receive in %s abstracted (arbitrary value)", fnKey(fr.fn))
		if x.CommaOk {
			tup := x.Type().(*types.Tuple)
			fr.vals[x] = &Val{Typ: x.Type(), Tup: []*Val{e.havocVal(st, "recv", tup.At(0).Type()), e.havocVal(st, "recv_ok", types.Typ[types.Bool])}, KnownLen: -1}
		} else {
			fr.vals[x] = e.havocVal(st, "recv", x.Type())
		}
	default:
		e.errf("unop %s", x.Op)
	}
}

func pow2(k int64) string {
	return new(big.Int).Lsh(big.NewInt(1), uint(k)).String()
}

func (e *Eng) wrapInt(t string, typ types.Type) string {
	if m, ok := unsignedModulus(typ); ok {
		return sx("mod", t, m)
	}
	if bits, ok := signedBits(typ); ok && bits < 64 {
		h := pow2(int64(bits - 1))
		return sx("-", sx("mod", sx("+", t, h), pow2(int64(bits))), h)
	}
	return t
}

func (e *Eng) execBinOp(fr *Frame, x *ssa.BinOp, st *State, g string, def func(ssa.Value, string, string) *Val) {
	a := e.valOf(fr, st, x.X)
	b := e.valOf(fr, st, x.Y)
	t := x.X.Type()
	checked := fr.fspec != nil && fr.fspec.ArithChecked || e.rootArithChecked()
	arith := func(op string) {
		if isFloat(x.Type()) {
			def(x, "Real", sx(op, a.T, b.T))
			return
		}
		raw := sx(op, a.T, b.T)
		if _, ok := unsignedModulus(x.Type()); ok {
			if checked && (op == "-" || op == "+" || op == "*") {
				lo, hi, _ := intRange(x.Type())
				e.oblige("overflow", descr(x, 0), e.safety(fr), x.Pos(), g, and(sx("<=", lo, raw), sx("<=", raw, hi)))
			}
			def(x, "Int", e.wrapInt(raw, x.Type()))
			return
		}
		if checked {
			if lo, hi, ok := intRange(x.Type()); ok {
				e.oblige("overflow", descr(x, 0), e.safety(fr), x.Pos(), g, and(sx("<=", lo, raw), sx("<=", raw, hi)))
			}
		}
		def(x, "Int", e.wrapInt(raw, x.Type()))
	}
	switch x.Op {
	case token.ADD:
		if isString(x.Type()) {
			v := def(x, "Str", sx("strcat", a.T, b.T))
			e.sc.assume(eq(sx("strlen", v.T), sx("+", sx("strlen", a.T), sx("strlen", b.T))), "strcat len")
			return
		}
		arith("+")
	case token.SUB:
		arith("-")
	case token.MUL:
		arith("*")
	case token.QUO:
		if isFloat(x.Type()) {
			def(x, "Real", sx("/", a.T, b.T))
			return
		}
		e.oblige("divzero", descr(x.Y, 0), e.safety(fr), x.Pos(), g, not(eq(b.T, "0")))
		if isUnsigned(x.Type()) {
			def(x, "Int", sx("div", a.T, b.T))
		} else {
			def(x, "Int", sx("go_div", a.T, b.T))
		}
	case token.REM:
		e.oblige("divzero", descr(x.Y, 0), e.safety(fr), x.Pos(), g, not(eq(b.T, "0")))
		if isUnsigned(x.Type()) {
			def(x, "Int", sx("mod", a.T, b.T))
		} else {
			def(x, "Int", sx("go_rem", a.T, b.T))
		}
	case token.EQL, token.NEQ:
		var c string
		switch types.Unalias(t).Underlying().(type) {
		case *types.Slice:
			// only comparison with nil is legal
			if isNilConst(x.Y) {
				c = eq(sx("s_arr", a.T), "0")
			} else {
				c = eq(sx("s_arr", b.T), "0")
			}
		default:
			if isNilConst(x.Y) && e.sortOf(t) == "Int" {
				c = eq(a.T, "0")
			} else if isNilConst(x.X) && e.sortOf(x.Y.Type()) == "Int" {
				c = eq(b.T, "0")
			} else {
				c = eq(a.T, b.T)
			}
		}
		if x.Op == token.NEQ {
			c = not(c)
		}
		def(x, "Bool", c)
	case token.LSS, token.LEQ, token.GTR, token.GEQ:
		op := map[token.Token]string{token.LSS: "<", token.LEQ: "<=", token.GTR: ">", token.GEQ: ">="}[x.Op]
		if isString(t) {
			switch x.Op {
			case token.LSS:
				def(x, "Bool", sx("strlt", a.T, b.T))
			case token.GTR:
				def(x, "Bool", sx("strlt", b.T, a.T))
			case token.LEQ:
				def(x, "Bool", not(sx("strlt", b.T, a.T)))
			case token.GEQ:
				def(x, "Bool", not(sx("strlt", a.T, b.T)))
			}
			return
		}
		def(x, "Bool", sx(op, a.T, b.T))
	case token.AND, token.OR, token.XOR, token.AND_NOT:
		if isBool(x.Type()) {
			switch x.Op {
			case token.AND:
				def(x, "Bool", and(a.T, b.T))
			case token.OR:
				def(x, "Bool", or(a.T, b.T))
			case token.XOR:
				def(x, "Bool", sx("xor", a.T, b.T))
			}
			return
		}
		if x.Op == token.AND {
			if c, ok := x.Y.(*ssa.Const); ok && c.Value != nil {
				if v, ok2 := constant.Int64Val(c.Value); ok2 && v > 0 && (v&(v+1)) == 0 {
					def(x, "Int", sx("mod", a.T, fmt.Sprint(v+1)))
					return
				}
			}
		}
		uf := map[token.Token]string{token.AND: "uf_bitand", token.OR: "uf_bitor", token.XOR: "uf_bitxor", token.AND_NOT: "uf_bitand"}[x.Op]
		v := def(x, "Int", sx(uf, a.T, b.T))
		if x.Op == token.AND_NOT {
			e.note("&^ abstracted in %s", fnKey(fr.fn))
		}
		e.assumeWF(st, g, v)
		if x.Op == token.AND {
			// x & y <= both for non-negatives
			e.sc.assume(implies(and(sx(">=", a.T, "0"), sx(">=", b.T, "0")), and(sx(">=", v.T, "0"), sx("<=", v.T, a.T), sx("<=", v.T, b.T))), "bitand bound")
		}
	case token.SHL, token.SHR:
		if c, ok := x.Y.(*ssa.Const); ok && c.Value != nil {
			k, _ := constant.Int64Val(constant.ToInt(c.Value))
			if k >= 0 && k < 64 {
				if x.Op == token.SHL {
					def(x, "Int", e.wrapInt(sx("*", a.T, pow2(k)), x.Type()))
				} else {
					def(x, "Int", sx("div", a.T, pow2(k)))
				}
				return
			}
		}
		uf := "uf_shl"
		if x.Op == token.SHR {
			uf = "uf_shr"
		}
		v := def(x, "Int", sx(uf, a.T, b.T))
		e.assumeWF(st, g, v)
	default:
		e.errf("binop %s", x.Op)
	}
}

func (e *Eng) rootArithChecked() bool {
	if e.spec == nil || e.rootFn == nil {
		return false
	}
	fs := e.spec.Funcs[fnKey(e.rootFn)]
	return fs != nil && fs.ArithChecked
}

func isNilConst(v ssa.Value) bool {
	c, ok := v.(*ssa.Const)
	return ok && c.Value == nil
}

func (e *Eng) execConvert(fr *Frame, x *ssa.Convert, st *State, g string, def func(ssa.Value, string, string) *Val) {
	src := e.valOf(fr, st, x.X)
	from, to := x.X.Type(), x.Type()
	switch {
	case isInteger(from) && isInteger(to):
		lossless := fr.fspec != nil && fr.fspec.ConvLossless
		raw := src.T
		wrapped := e.wrapInt(raw, to)
		if bits, ok := signedBits(to); ok && bits == 64 {
			if isUnsigned(from) {
				if m, _ := unsignedModulus(from); m == "18446744073709551616" {
					wrapped = sx("-", sx("mod", sx("+", raw, pow2(63)), pow2(64)), pow2(63))
				}
			}
		}
		if lossless {
			if lo, hi, ok := intRange(to); ok {
				e.oblige("conv", descr(x.X, 0)+"->"+to.String(), e.safety(fr), x.Pos(), g, and(sx("<=", lo, raw), sx("<=", raw, hi)))
			}
		}
		def(x, "Int", wrapped)
	case isInteger(from) && isFloat(to):
		def(x, "Real", sx("to_real", src.T))
	case isFloat(from) && isInteger(to):
		v := def(x, "Int", sx("go_trunc", src.T))
		_ = v
	case isFloat(from) && isFloat(to):
		def(x, "Real", src.T)
	case isString(from) && isByteSlice(to):
		ref := e.alloc(st, "[]byte(string)")
		et := types.Typ[types.Uint8]
		r, rs := e.elemRegion(et)
		arr := e.sc.havoc("strbytes", "(Array Int Int)")
		e.set(st, r, rs, sto(e.get(st, r, rs), ref, arr), "bytes of string")
		ln := sx("strlen", src.T)
		e.sc.assume(eq(sx("bseq", arr, "0", ln), sx("bseq_of_str", src.T)), "[]byte(s) content")
		e.byteContentAxiom(arr, src.T)
		v := def(x, "Slice", fmt.Sprintf("(mk_slice %s 0 %s %s)", ref, ln, ln))
		e.assumeWF(st, g, v)
	case isByteSlice(from) && isString(to):
		r, rs := e.elemRegion(types.Typ[types.Uint8])
		bs := sx("bseq", sel(e.get(st, r, rs), sx("s_arr", src.T)), sx("s_off", src.T), sx("s_len", src.T))
		v := def(x, "Str", sx("str_of_bseq", bs))
		e.sc.assume(and(eq(sx("strlen", v.T), sx("s_len", src.T)), eq(sx("bseq_of_str", v.T), bs)), "string(b)")
		e.strOfBytesAxiom(v.T, sel(e.get(st, r, rs), sx("s_arr", src.T)), sx("s_off", src.T))
	case isString(from) && isString(to):
		def(x, "Str", src.T)
	default:
		// pointer <-> unsafe etc.
		if e.sortOf(from) == e.sortOf(to) {
			def(x, e.sortOf(to), src.T)
		} else {
			e.note("conversion %v -> %v abstracted in %s", from, to, fnKey(fr.fn))
			fr.vals[x] = e.havocVal(st, "conv", to)
		}
	}
}

// content axioms are only emitted when the root function asks for byte contents
func (e *Eng) byteContentAxiom(arr, str string) {
	if !e.wantBytes() {
		return
	}
	e.sc.assume(fmt.Sprintf("(forall ((i Int)) (! (=> (and (<= 0 i) (< i (strlen %s))) (= (select %s i) (strat %s i))) :pattern ((select %s i))))", str, arr, str, arr), "bytes of string elementwise")
}

func (e *Eng) strOfBytesAxiom(str, arr, off string) {
	if !e.wantBytes() {
		return
	}
	e.sc.assume(fmt.Sprintf("(forall ((i Int)) (! (=> (and (<= 0 i) (< i (strlen %s))) (= (strat %s i) (select %s (at %s i)))) :pattern ((strat %s i))))", str, str, arr, off, str), "string of bytes elementwise")
}

func (e *Eng) wantBytes() bool {
	if e.spec == nil || e.rootFn == nil {
		return false
	}
	fs := e.spec.Funcs[fnKey(e.rootFn)]
	return fs != nil && fs.ByteContents
}

func isByteSlice(t types.Type) bool {
	s, ok := types.Unalias(t).Underlying().(*types.Slice)
	if !ok {
		return false
	}
	b, ok := types.Unalias(s.Elem()).Underlying().(*types.Basic)
	return ok && b.Kind() == types.Uint8
}

func (e *Eng) execSlice(fr *Frame, x *ssa.Slice, st *State, g string, def func(ssa.Value, string, string) *Val) {
	base := e.valOf(fr, st, x.X)
	var lo, hi, mx string
	lo = "0"
	if x.Low != nil {
		lo = e.valOf(fr, st, x.Low).T
	}
	key := descr(x.X, 0) + "[" + func() string {
		s := ""
		if x.Low != nil {
			s += descr(x.Low, 0)
		}
		s += ":"
		if x.High != nil {
			s += descr(x.High, 0)
		}
		return s
	}() + "]"
	switch u := types.Unalias(x.X.Type()).Underlying().(type) {
	case *types.Slice:
		hi = sx("s_len", base.T)
		if x.High != nil {
			hi = e.valOf(fr, st, x.High).T
		}
		mx = sx("s_cap", base.T)
		if x.Max != nil {
			mx = e.valOf(fr, st, x.Max).T
			e.oblige("slice", key+":max", e.safety(fr), x.Pos(), g, and(sx("<=", hi, mx), sx("<=", mx, sx("s_cap", base.T))))
		}
		e.oblige("slice", key, e.safety(fr), x.Pos(), g, and(sx("<=", "0", lo), sx("<=", lo, hi), sx("<=", hi, sx("s_cap", base.T))))
		v := def(x, "Slice", fmt.Sprintf("(mk_slice %s (+ %s %s) (- %s %s) (- %s %s))", sx("s_arr", base.T), sx("s_off", base.T), lo, hi, lo, mx, lo))
		_ = v
	case *types.Basic: // string
		hi = sx("strlen", base.T)
		if x.High != nil {
			hi = e.valOf(fr, st, x.High).T
		}
		e.oblige("slice", key, e.safety(fr), x.Pos(), g, and(sx("<=", "0", lo), sx("<=", lo, hi), sx("<=", hi, sx("strlen", base.T))))
		e.sc.declare("substr", "(declare-fun substr (Str Int Int) Str)")
		v := def(x, "Str", sx("substr", base.T, lo, hi))
		e.sc.assume(eq(sx("strlen", v.T), sx("-", hi, lo)), "substr len")
	case *types.Pointer:
		arr := u.Elem().Underlying().(*types.Array)
		n := fmt.Sprint(arr.Len())
		hi = n
		if x.High != nil {
			hi = e.valOf(fr, st, x.High).T
		}
		mx = n
		if x.Max != nil {
			mx = e.valOf(fr, st, x.Max).T
		}
		if !(x.Low == nil && x.High == nil && x.Max == nil) {
			e.oblige("slice", key, e.safety(fr), x.Pos(), g, and(sx("<=", "0", lo), sx("<=", lo, hi), sx("<=", hi, mx), sx("<=", mx, n)))
		}
		bl := e.locOfPtr(base)
		v := def(x, "Slice", fmt.Sprintf("(mk_slice %s %s (- %s %s) (- %s %s))", bl.Base, lo, hi, lo, mx, lo))
		if x.Low == nil && x.High == nil {
			v.KnownLen = int(arr.Len())
		}
	default:
		e.errf("slice of %v", x.X.Type())
	}
}

func lessNum(lit string, n int64) bool {
	var v int64
	if _, err := fmt.Sscanf(lit, "%d", &v); err != nil {
		return false
	}
	return v >= 0 && v < n
}

// nilCheck: obligation "pointer is not nil", emitted once per pointer term on
// every dominated path (an earlier discharged check is an assumption later on).
func (e *Eng) nilCheck(fr *Frame, b *ssa.BasicBlock, term, key string, pos token.Pos, g string) {
	if e.allocRefs[term] || strings.HasPrefix(term, "glob_") {
		return
	}
	if fr.inheritedNonNil[term] {
		return
	}
	if b != nil {
		for _, cb := range fr.nonnil[term] {
			if cb == b || cb.Dominates(b) {
				return
			}
		}
	}
	if fr.nonnil == nil {
		fr.nonnil = map[string][]*ssa.BasicBlock{}
	}
	if b != nil {
		fr.nonnil[term] = append(fr.nonnil[term], b)
	}
	e.oblige("nil", key, e.safety(fr), pos, g, not(eq(term, "0")))
}

// knownNonNilAt: pointer terms already checked on every path reaching block b (passed to inlined callees).
func (fr *Frame) knownNonNilAt(b *ssa.BasicBlock) map[string]bool {
	out := map[string]bool{}
	for t := range fr.inheritedNonNil {
		out[t] = true
	}
	for t, bs := range fr.nonnil {
		for _, cb := range bs {
			if cb == b || cb.Dominates(b) {
				out[t] = true
			}
		}
	}
	return out
}

// oldFor: the state `old(...)` refers to inside a function body: the state right after the
// monitor lock was taken for monitor functions, the entry state otherwise.
func (fr *Frame) oldFor(cur *State) *State {
	if fr.fspec != nil && fr.fspec.Monitor != "" && cur.monOld != nil {
		return cur.monOld
	}
	return fr.old
}

func domDepth(b *ssa.BasicBlock) int {
	d := 0
	for b.Idom() != nil {
		b = b.Idom()
		d++
	}
	return d
}
