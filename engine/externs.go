package main

// Trusted table of external (standard library / third party) function
// semantics (DESIGN §2.4(4), §7.2). Everything here is an assumption and is
// reported as such in the evidence.

import (
	"fmt"
	"go/token"
	"go/types"
	"strings"

	"golang.org/x/tools/go/ssa"
)

type externHandler func(e *Eng, fr *Frame, c *ssa.CallCommon, args []*Val, st *State, g string, pos token.Pos) *Val
type ifaceHandler func(e *Eng, fr *Frame, c *ssa.CallCommon, recv *Val, args []*Val, st *State, g string, pos token.Pos) *Val

var externHandlers = map[string]externHandler{}
var ifaceHandlers = map[string]ifaceHandler{}
var externMods = map[string][]string{}
var ifaceMods = map[string][]string{}

var unit = &Val{T: "0", KnownLen: -1}

func reg(names []string, mods []string, h externHandler) {
	for _, n := range names {
		externHandlers[n] = h
		externMods[n] = mods
	}
}

func noop(e *Eng, fr *Frame, c *ssa.CallCommon, args []*Val, st *State, g string, pos token.Pos) *Val {
	return e.havocResults(c, st)
}

// pureCall: result is an uninterpreted function of the argument terms (deterministic), no effects.
func pureUF(name string) externHandler {
	return func(e *Eng, fr *Frame, c *ssa.CallCommon, args []*Val, st *State, g string, pos token.Pos) *Val {
		sig := c.Signature()
		if sig.Results().Len() != 1 {
			return e.havocResults(c, st)
		}
		var as, ss []string
		for _, a := range args {
			t := a.T
			srt := a.sortName(e)
			if isByteSlice(a.Typ) {
				t = e.bseqOf(a, st)
				srt = "BSeq"
			} else if pt := derefType(a.Typ); pt != nil && isStructValue(pt) {
				// a pure function of the pointee's value, not of its address
				t = e.load(st, e.locOfPtr(a))
				if a.Loc == nil {
					t = e.loadObject(st, a.T, pt)
				}
				srt = e.sortOf(pt)
			}
			as = append(as, t)
			ss = append(ss, srt)
		}
		rt := sig.Results().At(0).Type()
		fn := "ext_" + sanitize(name)
		e.sc.declare(fn, fmt.Sprintf("(declare-fun %s (%s) %s)", fn, strings.Join(ss, " "), e.sortOf(rt)))
		t := fn
		if len(as) > 0 {
			t = sx(fn, as...)
		}
		n := e.sc.define("x_"+sanitize(name), e.sortOf(rt), t, "pure external "+name)
		v := &Val{T: n, Typ: rt, KnownLen: -1}
		e.assumeWF(st, g, v)
		return v
	}
}

func (e *Eng) atomicCell(fr *Frame, a *Val, st *State) (*Loc, string) {
	l := e.locOfPtr(a)
	cur := e.load(st, l)
	key := ""
	if l.Kind == LField {
		key = e.structName(l.ST) + "." + structOf(l.ST).Field(l.Idx).Name()
	}
	if as := e.spec.Atomics[key]; as != nil {
		// interference by other goroutines, constrained by the rely condition
		nv := e.sc.havoc("rely_"+key, e.sortOf(l.ET))
		switch as.Rely {
		case "nondecreasing":
			e.sc.assume(and(sx(">=", nv, cur), e.wfTerm(st, nv, l.ET, 0)), "rely: "+key+" only grows")
		case "monotone01":
			e.sc.assume(and(sx(">=", nv, cur), sx("<=", nv, "1"), sx(">=", nv, "0")), "rely: "+key+" goes 0->1 only")
		case "stable":
			e.sc.assume(eq(nv, cur), "rely: "+key+" not changed by others")
		default:
			e.sc.assume(e.wfTerm(st, nv, l.ET, 0), "rely: "+key+" arbitrary")
		}
		e.store(st, l, nv, "atomic rely step")
		cur = nv
	}
	return l, cur
}

func init() {
	lock := func(op string) externHandler {
		return func(e *Eng, fr *Frame, c *ssa.CallCommon, args []*Val, st *State, g string, pos token.Pos) *Val {
			e.lockOp(fr, op, args[0], st, g, pos)
			return unit
		}
	}
	reg([]string{"(*sync.RWMutex).Lock", "(*sync.Mutex).Lock"}, nil, lock("Lock"))
	reg([]string{"(*sync.RWMutex).Unlock", "(*sync.Mutex).Unlock"}, nil, lock("Unlock"))
	reg([]string{"(*sync.RWMutex).RLock"}, nil, lock("RLock"))
	reg([]string{"(*sync.RWMutex).RUnlock"}, nil, lock("RUnlock"))
	reg([]string{"(*sync.WaitGroup).Add", "(*sync.WaitGroup).Done", "(*sync.WaitGroup).Wait", "(*sync.Once).Do"}, nil, noop)

	// ---- atomics ----
	atomAdd := func(e *Eng, fr *Frame, c *ssa.CallCommon, args []*Val, st *State, g string, pos token.Pos) *Val {
		l, cur := e.atomicCell(fr, args[0], st)
		rt := c.Signature().Results().At(0).Type()
		if l.Kind == LField {
			if as := e.spec.Atomics[e.structName(l.ST)+"."+structOf(l.ST).Field(l.Idx).Name()]; as != nil && as.Rely == "nondecreasing" {
				if _, hi, ok := intRange(rt); ok {
					// wrap-around is recorded in the ghost flag $wrapped (contracts that need "the counter
					// never wraps" say so explicitly in their antecedent) instead of being assumed away
					if _, has := e.spec.Ghosts["$wrapped"]; has {
						e.regInit("G.$wrapped", "Bool")
						e.set(st, "G.$wrapped", "Bool", or(e.get(st, "G.$wrapped", "Bool"), sx(">", sx("+", cur, args[1].T), hi)), "ghost: counter wrapped")
					}
				}
			}
		}
		nv := e.sc.define("atomic_add", "Int", e.wrapInt(sx("+", cur, args[1].T), rt), "atomic add")
		e.store(st, l, nv, "atomic add")
		return &Val{T: nv, Typ: rt, KnownLen: -1}
	}
	atomLoad := func(e *Eng, fr *Frame, c *ssa.CallCommon, args []*Val, st *State, g string, pos token.Pos) *Val {
		_, cur := e.atomicCell(fr, args[0], st)
		rt := c.Signature().Results().At(0).Type()
		nv := e.sc.define("atomic_load", e.sortOf(rt), cur, "atomic load")
		return &Val{T: nv, Typ: rt, KnownLen: -1}
	}
	atomStore := func(e *Eng, fr *Frame, c *ssa.CallCommon, args []*Val, st *State, g string, pos token.Pos) *Val {
		l, _ := e.atomicCell(fr, args[0], st)
		e.store(st, l, args[1].T, "atomic store")
		return unit
	}
	atomCAS := func(e *Eng, fr *Frame, c *ssa.CallCommon, args []*Val, st *State, g string, pos token.Pos) *Val {
		l, cur := e.atomicCell(fr, args[0], st)
		ok := e.sc.define("cas_ok", "Bool", eq(cur, args[1].T), "cas")
		e.store(st, l, ite(ok, args[2].T, cur), "atomic cas")
		return &Val{T: ok, Typ: types.Typ[types.Bool], KnownLen: -1}
	}
	atomSwap := func(e *Eng, fr *Frame, c *ssa.CallCommon, args []*Val, st *State, g string, pos token.Pos) *Val {
		l, cur := e.atomicCell(fr, args[0], st)
		rt := c.Signature().Results().At(0).Type()
		old := e.sc.define("swap_old", e.sortOf(rt), cur, "atomic swap")
		e.store(st, l, args[1].T, "atomic swap")
		return &Val{T: old, Typ: rt, KnownLen: -1}
	}
	am := []string{"@arg0field", "G.$wrapped"}
	reg([]string{"sync/atomic.AddUint32", "sync/atomic.AddInt32", "sync/atomic.AddUint64", "sync/atomic.AddInt64",
		"(*sync/atomic.Uint32).Add", "(*sync/atomic.Int32).Add", "(*sync/atomic.Uint64).Add", "(*sync/atomic.Int64).Add"}, am, atomAdd)
	reg([]string{"sync/atomic.LoadUint32", "sync/atomic.LoadInt32", "sync/atomic.LoadUint64", "sync/atomic.LoadInt64",
		"(*sync/atomic.Uint32).Load", "(*sync/atomic.Int32).Load", "(*sync/atomic.Uint64).Load", "(*sync/atomic.Int64).Load", "(*sync/atomic.Bool).Load"}, am, atomLoad)
	reg([]string{"sync/atomic.StoreUint32", "sync/atomic.StoreInt32", "sync/atomic.StoreUint64", "sync/atomic.StoreInt64",
		"(*sync/atomic.Uint32).Store", "(*sync/atomic.Int32).Store", "(*sync/atomic.Uint64).Store", "(*sync/atomic.Int64).Store", "(*sync/atomic.Bool).Store"}, am, atomStore)
	reg([]string{"sync/atomic.CompareAndSwapUint32", "sync/atomic.CompareAndSwapInt32", "(*sync/atomic.Uint32).CompareAndSwap", "(*sync/atomic.Int32).CompareAndSwap", "(*sync/atomic.Bool).CompareAndSwap"}, am, atomCAS)
	reg([]string{"sync/atomic.SwapInt32", "sync/atomic.SwapUint32", "(*sync/atomic.Int32).Swap", "(*sync/atomic.Uint32).Swap", "(*sync/atomic.Bool).Swap"}, am, atomSwap)

	// ---- time ----
	reg([]string{"time.Now"}, []string{clockRegion}, func(e *Eng, fr *Frame, c *ssa.CallCommon, args []*Val, st *State, g string, pos token.Pos) *Val {
		old := e.get(st, clockRegion, "Int")
		nv := e.sc.havoc("now", "Int")
		e.sc.assume(sx(">=", nv, old), "clock is non-decreasing")
		e.set(st, clockRegion, "Int", nv, "time.Now")
		return &Val{T: nv, Typ: c.Signature().Results().At(0).Type(), KnownLen: -1}
	})
	reg([]string{"time.Since"}, []string{clockRegion}, func(e *Eng, fr *Frame, c *ssa.CallCommon, args []*Val, st *State, g string, pos token.Pos) *Val {
		old := e.get(st, clockRegion, "Int")
		nv := e.sc.havoc("now", "Int")
		e.sc.assume(sx(">=", nv, old), "clock is non-decreasing")
		e.set(st, clockRegion, "Int", nv, "time.Since")
		d := e.sc.define("since", "Int", sx("-", nv, args[0].T), "time.Since")
		return &Val{T: d, Typ: c.Signature().Results().At(0).Type(), KnownLen: -1}
	})
	bin := func(f func(a, b string) string) externHandler {
		return func(e *Eng, fr *Frame, c *ssa.CallCommon, args []*Val, st *State, g string, pos token.Pos) *Val {
			rt := c.Signature().Results().At(0).Type()
			n := e.sc.define("tm", e.sortOf(rt), f(args[0].T, args[1].T), "time op")
			return &Val{T: n, Typ: rt, KnownLen: -1}
		}
	}
	reg([]string{"(time.Time).Sub"}, nil, bin(func(a, b string) string { return sx("-", a, b) }))
	reg([]string{"(time.Time).Add"}, nil, bin(func(a, b string) string { return sx("+", a, b) }))
	reg([]string{"(time.Time).Equal"}, nil, bin(func(a, b string) string { return eq(a, b) }))
	reg([]string{"(time.Time).Before"}, nil, bin(func(a, b string) string { return sx("<", a, b) }))
	reg([]string{"(time.Time).After"}, nil, bin(func(a, b string) string { return sx(">", a, b) }))
	reg([]string{"(time.Time).IsZero"}, nil, func(e *Eng, fr *Frame, c *ssa.CallCommon, args []*Val, st *State, g string, pos token.Pos) *Val {
		return &Val{T: eq(args[0].T, "0"), Typ: types.Typ[types.Bool], KnownLen: -1}
	})
	reg([]string{"(time.Time).UnixNano"}, nil, func(e *Eng, fr *Frame, c *ssa.CallCommon, args []*Val, st *State, g string, pos token.Pos) *Val {
		return &Val{T: args[0].T, Typ: types.Typ[types.Int64], KnownLen: -1}
	})
	nonnilPtr := func(e *Eng, fr *Frame, c *ssa.CallCommon, args []*Val, st *State, g string, pos token.Pos) *Val {
		ref := e.alloc(st, calleeName(c))
		e.sc.assume(sx(">", ref, "0"), "fresh object")
		return &Val{T: ref, Typ: c.Signature().Results().At(0).Type(), KnownLen: -1}
	}
	reg([]string{"time.AfterFunc", "time.NewTimer", "time.NewTicker"}, []string{frRegion}, nonnilPtr)
	reg([]string{"(*time.Timer).Stop", "(*time.Timer).Reset"}, nil, func(e *Eng, fr *Frame, c *ssa.CallCommon, args []*Val, st *State, g string, pos token.Pos) *Val {
		e.oblige("nil", "timer:"+descr(c.Args[0], 0), e.safety(fr), pos, g, not(eq(args[0].T, "0")))
		return e.havocResults(c, st)
	})
	reg([]string{"(*time.Ticker).Stop"}, nil, func(e *Eng, fr *Frame, c *ssa.CallCommon, args []*Val, st *State, g string, pos token.Pos) *Val {
		e.oblige("nil", "ticker:"+descr(c.Args[0], 0), e.safety(fr), pos, g, not(eq(args[0].T, "0")))
		return unit
	})
	reg([]string{"time.After"}, []string{frRegion}, nonnilPtr)
	reg([]string{"time.Sleep"}, nil, noop)

	// ---- bytes ----
	reg([]string{"bytes.Equal"}, nil, func(e *Eng, fr *Frame, c *ssa.CallCommon, args []*Val, st *State, g string, pos token.Pos) *Val {
		n := e.sc.define("bytes_equal", "Bool", eq(e.bseqOf(args[0], st), e.bseqOf(args[1], st)), "bytes.Equal")
		// against a short literal of known length the comparison is spelled out elementwise
		for k := 0; k < 2; k++ {
			lit, other := args[k], args[1-k]
			if lit.KnownLen >= 0 && lit.KnownLen <= 8 {
				r, rs := e.elemRegion(types.Typ[types.Uint8])
				heap := e.get(st, r, rs)
				cs := []string{eq(sx("s_len", other.T), fmt.Sprint(lit.KnownLen))}
				for j := 0; j < lit.KnownLen; j++ {
					js := fmt.Sprint(j)
					cs = append(cs, eq(sel(sel(heap, sx("s_arr", other.T)), idxAt(sx("s_off", other.T), js)), selStoreChain(e.selReg(st, r, rs, sx("s_arr", lit.T)), idxAt(sx("s_off", lit.T), js))))
				}
				e.sc.assume(eq(n, and(cs...)), "bytes.Equal against a fixed-length literal, elementwise")
				break
			}
		}
		// equal sequences have equal lengths; an empty slice equals nil
		e.sc.assume(implies(n, eq(sx("s_len", args[0].T), sx("s_len", args[1].T))), "bytes.Equal implies same length")
		e.sc.assume(implies(and(eq(sx("s_len", args[0].T), "0"), eq(sx("s_len", args[1].T), "0")), n), "empty byte strings are equal")
		return &Val{T: n, Typ: types.Typ[types.Bool], KnownLen: -1}
	})

	// ---- errors / fmt / log / metrics ----
	nonnilErr := func(e *Eng, fr *Frame, c *ssa.CallCommon, args []*Val, st *State, g string, pos token.Pos) *Val {
		v := e.havocVal(st, "err", c.Signature().Results().At(0).Type())
		e.sc.assume(not(eq(v.T, "0")), "constructed error is non-nil")
		return v
	}
	reg([]string{"fmt.Errorf", "errors.New"}, nil, nonnilErr)
	reg([]string{"fmt.Sprintf", "fmt.Sprint", "fmt.Sprintln"}, nil, noop)
	reg([]string{"(*log.Logger).Printf", "(*log.Logger).Println", "(*log.Logger).Print", "log.Printf", "log.Println"}, nil, noop)

	// ---- math ----
	mathUF := func(name string) externHandler {
		return func(e *Eng, fr *Frame, c *ssa.CallCommon, args []*Val, st *State, g string, pos token.Pos) *Val {
			e.declMath()
			n := e.sc.define("math_"+name, "Real", sx("m_"+name, args[0].T), "math."+name)
			// monotone, log(1)=0 : instantiated where used
			e.sc.assume(and(implies(sx(">=", args[0].T, "1.0"), sx(">=", n, "0.0")), implies(eq(args[0].T, "1.0"), eq(n, "0.0")),
				implies(sx(">", args[0].T, "1.0"), sx(">", n, "0.0"))), "log is 0 at 1 and positive above")
			e.mathTerms = append(e.mathTerms, [3]string{name, args[0].T, n})
			for _, o := range e.mathTerms {
				if o[0] == name && o[2] != n {
					e.sc.assume(and(implies(sx("<=", o[1], args[0].T), sx("<=", o[2], n)), implies(sx("<=", args[0].T, o[1]), sx("<=", n, o[2]))), "log monotone")
				}
			}
			return &Val{T: n, Typ: types.Typ[types.Float64], KnownLen: -1}
		}
	}
	reg([]string{"math.Log"}, nil, mathUF("log"))
	reg([]string{"math.Log10"}, nil, mathUF("log10"))
	reg([]string{"math.Log2"}, nil, mathUF("log2"))
	reg([]string{"math.Floor"}, nil, func(e *Eng, fr *Frame, c *ssa.CallCommon, args []*Val, st *State, g string, pos token.Pos) *Val {
		n := e.sc.define("floor", "Real", sx("to_real", sx("to_int", args[0].T)), "math.Floor")
		return &Val{T: n, Typ: types.Typ[types.Float64], KnownLen: -1}
	})
	reg([]string{"math.Ceil"}, nil, func(e *Eng, fr *Frame, c *ssa.CallCommon, args []*Val, st *State, g string, pos token.Pos) *Val {
		n := e.sc.define("ceil", "Real", sx("-", sx("to_real", sx("to_int", sx("-", args[0].T)))), "math.Ceil")
		return &Val{T: n, Typ: types.Typ[types.Float64], KnownLen: -1}
	})
	reg([]string{"math.Max"}, nil, func(e *Eng, fr *Frame, c *ssa.CallCommon, args []*Val, st *State, g string, pos token.Pos) *Val {
		n := e.sc.define("fmax", "Real", ite(sx(">=", args[0].T, args[1].T), args[0].T, args[1].T), "math.Max")
		return &Val{T: n, Typ: types.Typ[types.Float64], KnownLen: -1}
	})
	reg([]string{"math.Min"}, nil, func(e *Eng, fr *Frame, c *ssa.CallCommon, args []*Val, st *State, g string, pos token.Pos) *Val {
		n := e.sc.define("fmin", "Real", ite(sx("<=", args[0].T, args[1].T), args[0].T, args[1].T), "math.Min")
		return &Val{T: n, Typ: types.Typ[types.Float64], KnownLen: -1}
	})

	reg([]string{"(time.Duration).Seconds"}, nil, func(e *Eng, fr *Frame, c *ssa.CallCommon, args []*Val, st *State, g string, pos token.Pos) *Val {
		n := e.sc.define("seconds", "Real", sx("/", sx("to_real", args[0].T), "1000000000.0"), "(time.Duration).Seconds (exact, floats as reals)")
		return &Val{T: n, Typ: types.Typ[types.Float64], KnownLen: -1}
	})
	reg([]string{"(time.Duration).Milliseconds"}, nil, func(e *Eng, fr *Frame, c *ssa.CallCommon, args []*Val, st *State, g string, pos token.Pos) *Val {
		n := e.sc.define("millis", "Int", sx("go_div", args[0].T, "1000000"), "(time.Duration).Milliseconds")
		return &Val{T: n, Typ: types.Typ[types.Int64], KnownLen: -1}
	})

	// ---- rand ----
	reg([]string{"math/rand.Intn", "math/rand.Int31n", "math/rand.Int63n"}, nil, func(e *Eng, fr *Frame, c *ssa.CallCommon, args []*Val, st *State, g string, pos token.Pos) *Val {
		e.oblige("panic", "rand.Intn(n<=0)", e.safety(fr), pos, g, sx(">", args[0].T, "0"))
		v := e.havocVal(st, "rand", c.Signature().Results().At(0).Type())
		e.sc.assume(and(sx("<=", "0", v.T), sx("<", v.T, args[0].T)), "rand range")
		return v
	})
	reg([]string{"math/rand.Int63", "math/rand.Int31", "math/rand.Int"}, nil, func(e *Eng, fr *Frame, c *ssa.CallCommon, args []*Val, st *State, g string, pos token.Pos) *Val {
		v := e.havocVal(st, "rand", c.Signature().Results().At(0).Type())
		e.sc.assume(sx("<=", "0", v.T), "rand non-negative")
		return v
	})
	reg([]string{"math/rand.Uint32"}, nil, noop)
	// net.ListenTCP / net.ListenUDP: a listener unless an error; (*net.TCPListener).Addr: the listener's *net.TCPAddr
	reg([]string{"net.ListenTCP", "net.ListenUDP"}, nil, func(e *Eng, fr *Frame, c *ssa.CallCommon, args []*Val, st *State, g string, pos token.Pos) *Val {
		res := e.havocResults(c, st)
		e.sc.assume(implies(eq(res.Tup[1].T, "0"), not(eq(res.Tup[0].T, "0"))), "net.Listen*: a listener is returned unless an error is")
		return res
	})
	reg([]string{"(*net.TCPListener).Addr"}, nil, func(e *Eng, fr *Frame, c *ssa.CallCommon, args []*Val, st *State, g string, pos token.Pos) *Val {
		pt := types.NewPointer(e.ld.typeOf("net.TCPAddr"))
		p := e.havocVal(st, "tcpaddr", pt)
		e.sc.assume(not(eq(p.T, "0")), "(*net.TCPListener).Addr returns the listener's *net.TCPAddr")
		return e.makeIface(p, pt, c.Signature().Results().At(0).Type(), "lnaddr")
	})
	// net.ParseCIDR: documented contract: (IP, *IPNet, nil) with a non-nil network, or (nil, nil, error)
	reg([]string{"net.ParseCIDR"}, nil, func(e *Eng, fr *Frame, c *ssa.CallCommon, args []*Val, st *State, g string, pos token.Pos) *Val {
		res := e.havocResults(c, st)
		e.sc.assume(implies(eq(res.Tup[2].T, "0"), not(eq(res.Tup[1].T, "0"))), "net.ParseCIDR: a network is returned unless an error is")
		return res
	})
	// rand.Shuffle(n, swap): "swap swaps the elements with indexes i and j" -- assumed contract of math/rand: swap is
	// called some number of times, each time with 0 <= i < n and 0 <= j < n, and nothing else is touched. The caller's
	// `iter-invariant` clauses at the site are proved to hold before, to be preserved by one arbitrary call of the
	// closure from any state satisfying them, and are what is known afterwards (repeated-callback rule).
	reg([]string{"math/rand.Shuffle"}, nil, func(e *Eng, fr *Frame, c *ssa.CallCommon, args []*Val, st *State, g string, pos token.Pos) *Val {
		e.oblige("panic", "rand.Shuffle(n<0)", e.safety(fr), pos, g, sx(">=", args[0].T, "0"))
		if args[1].Clo == nil {
			e.errf("rand.Shuffle: the swap function is not a closure of the calling function")
			return unit
		}
		e.repeatCallback(fr, c, args[1], func(i int, a string) string { return and(sx("<=", "0", a), sx("<", a, args[0].T)) }, st, g, pos)
		return unit
	})

	// ---- pure library functions ----
	for _, n := range []string{"strings.HasPrefix", "strings.HasSuffix", "strings.Contains", "strings.ToLower", "strings.TrimSpace", "strings.LastIndex", "strings.Index",
		"(net.IP).String", "(net.IP).To4", "(net.IP).To16", "(net.IP).Equal", "net.ParseIP", "strconv.Itoa", "hash/crc32.ChecksumIEEE",
		"(*net.IPNet).Contains", "(*net.IPNet).String", "net.JoinHostPort", "(*net.UDPAddr).String", "(*net.TCPAddr).String",
		"(time.Duration).String"} {
		reg([]string{n}, nil, pureUF(n))
	}

	// ---- constructors: never return nil / return nil only together with an error ----
	nonNil := func(e *Eng, fr *Frame, c *ssa.CallCommon, args []*Val, st *State, g string, pos token.Pos) *Val {
		res := e.havocResults(c, st)
		sig := c.Signature()
		first := res
		if res.Tup != nil {
			first = res.Tup[0]
		}
		fresh := sx(">=", termOfRef(first), e.get(st, frRegion, "Int"))
		_ = fresh
		if sig.Results().Len() == 1 {
			e.sc.assume(implies(g, not(eq(termOfRef(first), "0"))), "constructor result is non-nil")
		} else {
			errv := res.Tup[sig.Results().Len()-1]
			e.sc.assume(implies(g, implies(eq(errv.T, "0"), not(eq(termOfRef(first), "0")))), "constructor result is non-nil unless an error is returned")
		}
		return res
	}
	reg([]string{"compress/lzw.NewReader", "compress/lzw.NewWriter", "bytes.NewReader", "bufio.NewReader", "bufio.NewReaderSize",
		"github.com/hashicorp/go-msgpack/v2/codec.NewDecoder", "github.com/hashicorp/go-msgpack/v2/codec.NewDecoderBytes",
		"crypto/aes.NewCipher", "crypto/cipher.NewGCM", "container/list.New", "log.New", "strings.NewReader", "io.LimitReader", "io.MultiReader"}, nil, nonNil)
	reg([]string{"(*bytes.Reader).Len", "(*container/list.List).Len"}, nil, func(e *Eng, fr *Frame, c *ssa.CallCommon, args []*Val, st *State, g string, pos token.Pos) *Val {
		e.nilCheck(fr, nil, args[0].T, "recv:"+descr(c.Args[0], 0), pos, g)
		v := e.havocVal(st, "len", types.Typ[types.Int])
		e.sc.assume(sx(">=", v.T, "0"), "length is non-negative")
		return v
	})

	// ---- bytes.Buffer: opaque object with a ghost length (region BL); contents are not modelled here ----
	const BL = "BL"
	blGet := func(e *Eng, st *State, ref string) string { return sel(e.get(st, BL, "(Array Int Int)"), ref) }
	blSet := func(e *Eng, st *State, ref, v string) {
		e.setStore(st, BL, "(Array Int Int)", ref, v, "bytes.Buffer length")
	}
	bufRecv := func(e *Eng, fr *Frame, c *ssa.CallCommon, args []*Val, g string, pos token.Pos) string {
		e.nilCheck(fr, nil, args[0].T, "buffer:"+descr(c.Args[0], 0), pos, g)
		return args[0].T
	}
	reg([]string{"bytes.NewBuffer"}, []string{frRegion, BL}, func(e *Eng, fr *Frame, c *ssa.CallCommon, args []*Val, st *State, g string, pos token.Pos) *Val {
		ref := e.alloc(st, "bytes.NewBuffer")
		blSet(e, st, ref, sx("s_len", args[0].T))
		e.sc.declare("buf_adopted", "(declare-fun buf_adopted (Int) Bool)")
		e.sc.assume(eq(sx("buf_adopted", ref), not(eq(sx("s_arr", args[0].T), "0"))), "bytes.NewBuffer(x) adopts x's array unless x is nil")
		return &Val{T: ref, Typ: c.Signature().Results().At(0).Type(), KnownLen: -1}
	})
	reg([]string{"(*bytes.Buffer).Len"}, nil, func(e *Eng, fr *Frame, c *ssa.CallCommon, args []*Val, st *State, g string, pos token.Pos) *Val {
		b := bufRecv(e, fr, c, args, g, pos)
		n := e.sc.define("buflen", "Int", blGet(e, st, b), "(*bytes.Buffer).Len")
		e.sc.assume(and(sx(">=", n, "0"), sx("<=", n, "9223372036854775807")), "buffer length range")
		return &Val{T: n, Typ: types.Typ[types.Int], KnownLen: -1}
	})
	reg([]string{"(*bytes.Buffer).Bytes"}, []string{frRegion}, func(e *Eng, fr *Frame, c *ssa.CallCommon, args []*Val, st *State, g string, pos token.Pos) *Val {
		b := bufRecv(e, fr, c, args, g, pos)
		// the buffer's array may have been allocated by any write since the buffer was created (writes do not move the
		// allocation frontier in this model): let the frontier move here, so that the result may be such an array
		oldFr := e.get(st, frRegion, "Int")
		e.havocReg(st, frRegion)
		e.sc.assume(sx(">", e.get(st, frRegion, "Int"), oldFr), "frontier moves over buf.Bytes()")
		v := e.havocVal(st, "bufbytes", c.Signature().Results().At(0).Type())
		e.sc.assume(eq(sx("s_len", v.T), blGet(e, st, b)), "len(buf.Bytes()) == buf.Len()")
		// a buffer that did not adopt a caller's slice allocates its array after it was itself created
		e.sc.declare("buf_adopted", "(declare-fun buf_adopted (Int) Bool)")
		e.sc.assume(implies(not(sx("buf_adopted", b)), or(eq(sx("s_arr", v.T), "0"), sx(">", sx("s_arr", v.T), b))), "buf.Bytes(): the array of a buffer that adopted none is younger than the buffer")
		e.note("bytes.Buffer.Bytes() is modelled as a snapshot of the buffer (aliasing with later writes not modelled)")
		return v
	})
	reg([]string{"(*bytes.Buffer).WriteByte"}, []string{BL}, func(e *Eng, fr *Frame, c *ssa.CallCommon, args []*Val, st *State, g string, pos token.Pos) *Val {
		b := bufRecv(e, fr, c, args, g, pos)
		blSet(e, st, b, sx("+", blGet(e, st, b), "1"))
		return &Val{T: "0", Typ: c.Signature().Results().At(0).Type(), KnownLen: -1}
	})
	reg([]string{"(*bytes.Buffer).Write", "(*bytes.Buffer).WriteString"}, []string{BL}, func(e *Eng, fr *Frame, c *ssa.CallCommon, args []*Val, st *State, g string, pos token.Pos) *Val {
		b := bufRecv(e, fr, c, args, g, pos)
		ln := sx("s_len", args[1].T)
		if isString(args[1].Typ) {
			ln = sx("strlen", args[1].T)
		}
		blSet(e, st, b, sx("+", blGet(e, st, b), ln))
		n := e.sc.define("written", "Int", ln, "bytes written")
		return &Val{Typ: c.Signature().Results(), Tup: []*Val{{T: n, Typ: types.Typ[types.Int], KnownLen: -1}, {T: "0", Typ: c.Signature().Results().At(1).Type(), KnownLen: -1}}, KnownLen: -1}
	})
	reg([]string{"(*bytes.Buffer).Grow"}, nil, func(e *Eng, fr *Frame, c *ssa.CallCommon, args []*Val, st *State, g string, pos token.Pos) *Val {
		bufRecv(e, fr, c, args, g, pos)
		e.oblige("panic", "bytes.Buffer.Grow: negative count", e.safety(fr), pos, g, sx(">=", args[1].T, "0"))
		return unit
	})
	reg([]string{"(*bytes.Buffer).Truncate"}, []string{BL}, func(e *Eng, fr *Frame, c *ssa.CallCommon, args []*Val, st *State, g string, pos token.Pos) *Val {
		b := bufRecv(e, fr, c, args, g, pos)
		e.oblige("panic", "bytes.Buffer.Truncate: out of range", e.safety(fr), pos, g, and(sx(">=", args[1].T, "0"), sx("<=", args[1].T, blGet(e, st, b))))
		blSet(e, st, b, args[1].T)
		return unit
	})
	reg([]string{"(*bytes.Buffer).Reset"}, []string{BL}, func(e *Eng, fr *Frame, c *ssa.CallCommon, args []*Val, st *State, g string, pos token.Pos) *Val {
		b := bufRecv(e, fr, c, args, g, pos)
		blSet(e, st, b, "0")
		return unit
	})
	// io.CopyN / io.Copy / binary.Write into a *bytes.Buffer destination
	bufOfWriter := func(e *Eng, v *Val) string {
		un := "unbox_" + typeKey(types.NewPointer(e.ld.typeOf("bytes.Buffer")))
		e.sc.declare(un, fmt.Sprintf("(declare-fun %s (Int) Int)", un))
		return sx(un, v.T)
	}
	isBufWriter := func(e *Eng, v *Val) string {
		return and(not(eq(v.T, "0")), eq(sx("typeof", v.T), e.typeID(types.NewPointer(e.ld.typeOf("bytes.Buffer")))))
	}
	reg([]string{"io.CopyN"}, []string{BL}, func(e *Eng, fr *Frame, c *ssa.CallCommon, args []*Val, st *State, g string, pos token.Pos) *Val {
		n := e.havocVal(st, "copied", types.Typ[types.Int64])
		errv := e.havocVal(st, "copyerr", c.Signature().Results().At(1).Type())
		e.sc.assume(and(sx("<=", "0", n.T), sx("<=", n.T, ite(sx(">", args[2].T, "0"), args[2].T, "0")), implies(eq(errv.T, "0"), eq(n.T, args[2].T))), "io.CopyN: 0 <= written <= n, exactly n when no error")
		b := bufOfWriter(e, args[0])
		cur := e.get(st, BL, "(Array Int Int)")
		e.set(st, BL, "(Array Int Int)", ite(isBufWriter(e, args[0]), sto(cur, b, sx("+", sel(cur, b), n.T)), cur), "io.CopyN into buffer")
		return &Val{Typ: c.Signature().Results(), Tup: []*Val{n, errv}, KnownLen: -1}
	})
	reg([]string{"io.Copy"}, []string{BL}, func(e *Eng, fr *Frame, c *ssa.CallCommon, args []*Val, st *State, g string, pos token.Pos) *Val {
		n := e.havocVal(st, "copied", types.Typ[types.Int64])
		errv := e.havocVal(st, "copyerr", c.Signature().Results().At(1).Type())
		e.sc.assume(sx("<=", "0", n.T), "io.Copy: written >= 0")
		// io.Copy(buf, bytes.NewReader(b)) with the reader used nowhere else: exactly len(b) bytes, no error
		if mi, ok := c.Args[1].(*ssa.MakeInterface); ok {
			if call, ok := mi.X.(*ssa.Call); ok && realReferrers(call) == 1 {
				if f := call.Common().StaticCallee(); f != nil && f.String() == "bytes.NewReader" {
					if b := fr.vals[call.Common().Args[0]]; b != nil {
						e.sc.assume(implies(isBufWriter(e, args[0]), and(eq(n.T, sx("s_len", b.T)), eq(errv.T, "0"))), "io.Copy from a fresh bytes.Reader into a bytes.Buffer copies everything")
					}
				}
			}
		}
		b := bufOfWriter(e, args[0])
		cur := e.get(st, BL, "(Array Int Int)")
		e.set(st, BL, "(Array Int Int)", ite(isBufWriter(e, args[0]), sto(cur, b, sx("+", sel(cur, b), n.T)), cur), "io.Copy into buffer")
		return &Val{Typ: c.Signature().Results(), Tup: []*Val{n, errv}, KnownLen: -1}
	})

	// ---- msgpack codec: an encoder remembers its writer (ghost region ENCW); Encode on a *bytes.Buffer
	// writer grows it by at least 1 + 2*fields bytes for a struct (fixmap header, >=1 byte per key and per value) ----
	reg([]string{"github.com/hashicorp/go-msgpack/v2/codec.NewEncoder"}, []string{frRegion, "ENCW"}, func(e *Eng, fr *Frame, c *ssa.CallCommon, args []*Val, st *State, g string, pos token.Pos) *Val {
		ref := e.alloc(st, "codec.NewEncoder")
		e.setStore(st, "ENCW", "(Array Int Int)", ref, args[0].T, "encoder writer")
		return &Val{T: ref, Typ: c.Signature().Results().At(0).Type(), KnownLen: -1}
	})
	reg([]string{"(*github.com/hashicorp/go-msgpack/v2/codec.Encoder).Encode"}, []string{"BL"}, func(e *Eng, fr *Frame, c *ssa.CallCommon, args []*Val, st *State, g string, pos token.Pos) *Val {
		e.nilCheck(fr, nil, args[0].T, "encoder:"+descr(c.Args[0], 0), pos, g)
		minBytes := 1
		if mi, ok := c.Args[1].(*ssa.MakeInterface); ok {
			if pt := derefType(mi.X.Type()); pt != nil && structOf(pt) != nil {
				minBytes = 1 + 2*structOf(pt).NumFields()
			} else if structOf(mi.X.Type()) != nil {
				minBytes = 1 + 2*structOf(mi.X.Type()).NumFields()
			}
		}
		errv := e.havocVal(st, "encerr", c.Signature().Results().At(0).Type())
		n := e.havocVal(st, "encbytes", types.Typ[types.Int])
		e.sc.assume(and(sx(">=", n.T, "0"), implies(eq(errv.T, "0"), sx(">=", n.T, fmt.Sprint(minBytes)))), "msgpack Encode writes at least a map header and one byte per key and value")
		w := sel(e.get(st, "ENCW", "(Array Int Int)"), args[0].T)
		wv := &Val{T: w, KnownLen: -1}
		b := bufOfWriter(e, wv)
		cur := e.get(st, "BL", "(Array Int Int)")
		e.set(st, "BL", "(Array Int Int)", ite(isBufWriter(e, wv), sto(cur, b, sx("+", sel(cur, b), n.T)), cur), "Encode into buffer")
		return errv
	})

	reg([]string{"encoding/binary.Write"}, []string{"BL"}, func(e *Eng, fr *Frame, c *ssa.CallCommon, args []*Val, st *State, g string, pos token.Pos) *Val {
		size := -1
		if mi, ok := c.Args[2].(*ssa.MakeInterface); ok {
			if b, ok := types.Unalias(mi.X.Type()).Underlying().(*types.Basic); ok {
				switch b.Kind() {
				case types.Uint8, types.Int8, types.Bool:
					size = 1
				case types.Uint16, types.Int16:
					size = 2
				case types.Uint32, types.Int32, types.Float32:
					size = 4
				case types.Uint64, types.Int64, types.Float64:
					size = 8
				}
			}
		}
		errv := e.havocVal(st, "bwerr", c.Signature().Results().At(0).Type())
		if size > 0 {
			b := bufOfWriter(e, args[0])
			cur := e.get(st, "BL", "(Array Int Int)")
			// writing to a bytes.Buffer cannot fail
			e.sc.assume(implies(isBufWriter(e, args[0]), eq(errv.T, "0")), "binary.Write of a fixed-size value into a bytes.Buffer succeeds")
			e.set(st, "BL", "(Array Int Int)", ite(isBufWriter(e, args[0]), sto(cur, b, sx("+", sel(cur, b), fmt.Sprint(size))), cur), "binary.Write into buffer")
		} else {
			e.note("binary.Write of a value whose size is not static: buffer length unknown afterwards")
			e.havocReg(st, "BL")
		}
		return errv
	})

	// ---- container/list: opaque; element values are constrained by an axiom in the contracts file ----
	reg([]string{"(*container/list.List).Back", "(*container/list.List).Front"}, nil, func(e *Eng, fr *Frame, c *ssa.CallCommon, args []*Val, st *State, g string, pos token.Pos) *Val {
		e.nilCheck(fr, nil, args[0].T, "list:"+descr(c.Args[0], 0), pos, g)
		return e.havocResults(c, st)
	})
	reg([]string{"(*container/list.List).Remove"}, nil, func(e *Eng, fr *Frame, c *ssa.CallCommon, args []*Val, st *State, g string, pos token.Pos) *Val {
		e.nilCheck(fr, nil, args[0].T, "list:"+descr(c.Args[0], 0), pos, g)
		e.nilCheck(fr, nil, args[1].T, "element:"+descr(c.Args[1], 0), pos, g)
		return e.havocResults(c, st)
	})
	reg([]string{"(*container/list.List).PushBack", "(*container/list.List).PushFront"}, nil, func(e *Eng, fr *Frame, c *ssa.CallCommon, args []*Val, st *State, g string, pos token.Pos) *Val {
		e.nilCheck(fr, nil, args[0].T, "list:"+descr(c.Args[0], 0), pos, g)
		return e.havocResults(c, st)
	})
	// ---- bufio ----
	reg([]string{"(*bufio.Reader).Buffered"}, nil, func(e *Eng, fr *Frame, c *ssa.CallCommon, args []*Val, st *State, g string, pos token.Pos) *Val {
		e.nilCheck(fr, nil, args[0].T, "reader:"+descr(c.Args[0], 0), pos, g)
		n := e.sc.define("buffered", "Int", sel(e.get(st, "BR", "(Array Int Int)"), args[0].T), "(*bufio.Reader).Buffered")
		e.sc.assume(sx(">=", n, "0"), "buffered count is non-negative")
		return &Val{T: n, Typ: types.Typ[types.Int], KnownLen: -1}
	})
	reg([]string{"(*bufio.Reader).Peek"}, []string{"BR"}, func(e *Eng, fr *Frame, c *ssa.CallCommon, args []*Val, st *State, g string, pos token.Pos) *Val {
		e.nilCheck(fr, nil, args[0].T, "reader:"+descr(c.Args[0], 0), pos, g)
		res := e.havocResults(c, st)
		// ghost: number of buffered bytes only grows by peeking, and a successful Peek(n) leaves at least n buffered
		cur := e.get(st, "BR", "(Array Int Int)")
		nb := e.sc.havoc("buffered_after", "Int")
		e.sc.assume(and(sx(">=", nb, sel(cur, args[0].T)), implies(eq(res.Tup[1].T, "0"), sx(">=", nb, args[1].T)),
			implies(and(sx("<=", args[1].T, sel(cur, args[0].T)), sx(">=", args[1].T, "0")), eq(res.Tup[1].T, "0"))), "bufio.Reader: buffered bytes after Peek; peeking what is already buffered cannot fail")
		e.setStore(st, "BR", "(Array Int Int)", args[0].T, nb, "bufio buffered count")
		// every Peek is a view of the same unread stream prefix (ghost content BRC[reader])
		e.sc.declare("BRC", "(declare-fun BRC (Int) (Array Int Int))")
		r8, rs8 := e.elemRegion(types.Typ[types.Uint8])
		pk := res.Tup[0].T
		e.sc.assume(fmt.Sprintf("(forall ((i Int)) (! (=> (and (<= 0 i) (< i (s_len %s))) (= (select (select %s (s_arr %s)) (at (s_off %s) i)) (select (BRC %s) i))) :pattern ((select (select %s (s_arr %s)) (at (s_off %s) i)))))",
			pk, e.get(st, r8, rs8), pk, pk, args[0].T, e.get(st, r8, rs8), pk, pk), "bufio.Reader.Peek returns a prefix of the unread stream")
		e.sc.assume(implies(eq(res.Tup[1].T, "0"), eq(sx("s_len", res.Tup[0].T), args[1].T)), "bufio.Reader.Peek(n): exactly n bytes unless an error is returned")
		e.sc.assume(sx("<=", sx("s_len", res.Tup[0].T), ite(sx(">", args[1].T, "0"), args[1].T, "0")), "bufio.Reader.Peek(n): at most n bytes")
		return res
	})
	// reads into a caller-supplied buffer: 0 <= n <= len(buf)
	reg([]string{"(*net.UDPConn).ReadFrom", "(*net.UDPConn).Read", "(*net.TCPConn).Read", "(*net.conn).Read"}, []string{"@args"}, func(e *Eng, fr *Frame, c *ssa.CallCommon, args []*Val, st *State, g string, pos token.Pos) *Val {
		e.nilCheck(fr, nil, args[0].T, "recv:"+descr(c.Args[0], 0), pos, g)
		e.havocThrough(st, args[1])
		res := e.havocResults(c, st)
		e.sc.assume(and(sx("<=", "0", res.Tup[0].T), sx("<=", res.Tup[0].T, sx("s_len", args[1].T))), "Read/ReadFrom: 0 <= n <= len(buf)")
		return res
	})
	reg([]string{"io.ReadFull", "io.ReadAtLeast"}, []string{"@args"}, func(e *Eng, fr *Frame, c *ssa.CallCommon, args []*Val, st *State, g string, pos token.Pos) *Val {
		e.havocThrough(st, args[1])
		res := e.havocResults(c, st)
		e.sc.assume(and(sx("<=", "0", res.Tup[0].T), sx("<=", res.Tup[0].T, sx("s_len", args[1].T))), "io.ReadFull/ReadAtLeast: 0 <= n <= len(buf)")
		// success means the requested amount was read, however the underlying reader fragments it
		if len(args) >= 3 {
			e.sc.assume(implies(eq(res.Tup[1].T, "0"), sx(">=", res.Tup[0].T, args[2].T)), "io.ReadAtLeast: at least min bytes unless an error is returned")
		} else {
			e.sc.assume(implies(eq(res.Tup[1].T, "0"), eq(res.Tup[0].T, sx("s_len", args[1].T))), "io.ReadFull: the whole buffer unless an error is returned")
		}
		return res
	})

	// ---- encoding/binary ----
	reg([]string{"(encoding/binary.bigEndian).Uint16"}, nil, func(e *Eng, fr *Frame, c *ssa.CallCommon, args []*Val, st *State, g string, pos token.Pos) *Val {
		b := args[len(args)-1]
		e.oblige("index", "BigEndian.Uint16:"+descr(c.Args[len(c.Args)-1], 0), e.safety(fr), pos, g, sx("<=", "2", sx("s_len", b.T)))
		r, rs := e.elemRegion(types.Typ[types.Uint8])
		arr := sel(e.get(st, r, rs), sx("s_arr", b.T))
		at := func(i int) string { return sel(arr, idxAt(sx("s_off", b.T), fmt.Sprint(i))) }
		n := e.sc.define("be16", "Int", sx("+", sx("*", "256", at(0)), at(1)), "BigEndian.Uint16")
		v := &Val{T: n, Typ: types.Typ[types.Uint16], KnownLen: -1}
		e.assumeWF(st, g, v)
		return v
	})
	reg([]string{"(encoding/binary.bigEndian).Uint32"}, nil, func(e *Eng, fr *Frame, c *ssa.CallCommon, args []*Val, st *State, g string, pos token.Pos) *Val {
		b := args[len(args)-1]
		e.oblige("index", "BigEndian.Uint32:"+descr(c.Args[len(c.Args)-1], 0), e.safety(fr), pos, g, sx("<=", "4", sx("s_len", b.T)))
		r, rs := e.elemRegion(types.Typ[types.Uint8])
		arr := sel(e.get(st, r, rs), sx("s_arr", b.T))
		at := func(i int) string { return sel(arr, idxAt(sx("s_off", b.T), fmt.Sprint(i))) }
		n := e.sc.define("be32", "Int", sx("+", sx("*", "16777216", at(0)), sx("*", "65536", at(1)), sx("*", "256", at(2)), at(3)), "BigEndian.Uint32")
		v := &Val{T: n, Typ: types.Typ[types.Uint32], KnownLen: -1}
		e.assumeWF(st, g, v)
		return v
	})
	put := func(nbytes int) externHandler {
		return func(e *Eng, fr *Frame, c *ssa.CallCommon, args []*Val, st *State, g string, pos token.Pos) *Val {
			b, v := args[len(args)-2], args[len(args)-1]
			e.oblige("index", fmt.Sprintf("BigEndian.Put%d:%s", nbytes*8, descr(c.Args[len(c.Args)-2], 0)), e.safety(fr), pos, g, sx("<=", fmt.Sprint(nbytes), sx("s_len", b.T)))
			r, rs := e.elemRegion(types.Typ[types.Uint8])
			cur := e.get(st, r, rs)
			arr := sel(cur, sx("s_arr", b.T))
			for i := 0; i < nbytes; i++ {
				shift := pow2(int64(8 * (nbytes - 1 - i)))
				arr = sto(arr, idxAt(sx("s_off", b.T), fmt.Sprint(i)), sx("mod", sx("div", v.T, shift), "256"))
			}
			e.set(st, r, rs, sto(cur, sx("s_arr", b.T), arr), "BigEndian.Put")
			return unit
		}
	}
	reg([]string{"(encoding/binary.bigEndian).PutUint16"}, []string{"@args"}, put(2))
	reg([]string{"(encoding/binary.bigEndian).PutUint32"}, []string{"@args"}, put(4))
}

func init() {
	// crypto/cipher.AEAD (assumed contract of AES-GCM): Open returns len(ciphertext)-16 bytes on success,
	// Seal appends len(plaintext)+16 bytes to dst.
	ifaceHandlers["cipher.AEAD.Open"] = func(e *Eng, fr *Frame, c *ssa.CallCommon, recv *Val, args []*Val, st *State, g string, pos token.Pos) *Val {
		// "Even if the function fails, the contents of dst, up to its capacity, may be overwritten": a non-nil dst
		// (in-place decryption passes ciphertext[:0]) gives Open the backing array to write, on success and on failure
		e.havocThrough(st, args[0])
		res := e.havocResults(c, st)
		plain, errv := res.Tup[0], res.Tup[1]
		e.sc.assume(implies(eq(errv.T, "0"), and(eq(sx("s_len", plain.T), sx("-", sx("+", sx("s_len", args[0].T), sx("s_len", args[2].T)), "16")), sx(">=", sx("s_len", args[2].T), "16"))), "AEAD.Open: plaintext is 16 bytes shorter than the ciphertext (appended to dst)")
		return res
	}
	ifaceHandlers["cipher.AEAD.Seal"] = func(e *Eng, fr *Frame, c *ssa.CallCommon, recv *Val, args []*Val, st *State, g string, pos token.Pos) *Val {
		res := e.havocResults(c, st)
		e.sc.assume(eq(sx("s_len", res.T), sx("+", sx("s_len", args[0].T), sx("s_len", args[2].T), "16")), "AEAD.Seal: output is dst plus plaintext plus a 16-byte tag")
		return res
	}
	dial := func(e *Eng, fr *Frame, c *ssa.CallCommon, recv *Val, args []*Val, st *State, g string, pos token.Pos) *Val {
		res := e.havocResults(c, st)
		e.sc.assume(implies(eq(res.Tup[1].T, "0"), not(eq(res.Tup[0].T, "0"))), "Transport contract: a successful dial returns a connection")
		return res
	}
	ifaceHandlers["NodeAwareTransport.DialAddressTimeout"] = dial
	ifaceHandlers["Transport.DialTimeout"] = dial
	ifaceHandlers["NodeAwareTransport.DialTimeout"] = dial
	ifaceHandlers["net.Conn.RemoteAddr"] = func(e *Eng, fr *Frame, c *ssa.CallCommon, recv *Val, args []*Val, st *State, g string, pos token.Pos) *Val {
		return e.havocResults(c, st)
	}
	ifaceHandlers["net.Addr.String"] = func(e *Eng, fr *Frame, c *ssa.CallCommon, recv *Val, args []*Val, st *State, g string, pos token.Pos) *Val {
		return e.havocResults(c, st)
	}
}

// metrics and similar packages: all calls are no-ops for our purposes.
func isIgnoredExternal(key string) bool {
	for _, p := range []string{"github.com/hashicorp/go-metrics", "github.com/armon/go-metrics"} {
		if strings.Contains(key, p) {
			return true
		}
	}
	return false
}

func termOfRef(v *Val) string {
	if v.sortNameRaw() == "Slice" {
		return "(s_arr " + v.T + ")"
	}
	return v.T
}

func (v *Val) sortNameRaw() string {
	if v.Typ != nil {
		if _, ok := types.Unalias(v.Typ).Underlying().(*types.Slice); ok {
			return "Slice"
		}
	}
	return "Int"
}

// realReferrers counts the instructions using v, leaving debug references aside.
func realReferrers(v ssa.Value) int {
	n := 0
	if rs := v.Referrers(); rs != nil {
		for _, r := range *rs {
			if _, ok := r.(*ssa.DebugRef); !ok {
				n++
			}
		}
	}
	return n
}
