package main

import (
	"sort"
	"fmt"
	"go/token"
	"go/types"
	"strings"

	"golang.org/x/tools/go/ssa"
)

func calleeName(c *ssa.CallCommon) string {
	if c.IsInvoke() {
		return ifaceName(c.Value.Type()) + "." + c.Method.Name()
	}
	if f := c.StaticCallee(); f != nil {
		return fnKey(f)
	}
	if b, ok := c.Value.(*ssa.Builtin); ok {
		return b.Name()
	}
	return "dyn:" + descr(c.Value, 0)
}

func ifaceName(t types.Type) string {
	if n, ok := types.Unalias(t).(*types.Named); ok {
		if n.Obj().Pkg() != nil && n.Obj().Pkg().Path() != "github.com/hashicorp/memberlist" {
			return n.Obj().Pkg().Name() + "." + n.Obj().Name()
		}
		return n.Obj().Name()
	}
	return types.TypeString(t, nil)
}

func (e *Eng) execCall(fr *Frame, ins ssa.Instruction, c *ssa.CallCommon, st *State, g string, isDefer bool) *Val {
	var fnv *Val
	fnv = e.valOf(fr, st, c.Value)
	var args []*Val
	for _, a := range c.Args {
		args = append(args, e.valOf(fr, st, a))
	}
	return e.execCallWith(fr, ins, c, fnv, args, st, g, isDefer)
}

func (e *Eng) resultType(c *ssa.CallCommon) types.Type {
	sig := c.Signature()
	switch sig.Results().Len() {
	case 0:
		return nil
	case 1:
		return sig.Results().At(0).Type()
	}
	return sig.Results()
}

func (e *Eng) packResults(c *ssa.CallCommon, rs []*Val) *Val {
	sig := c.Signature()
	switch sig.Results().Len() {
	case 0:
		return &Val{T: "0", KnownLen: -1}
	case 1:
		if len(rs) >= 1 {
			return rs[0]
		}
	}
	return &Val{Typ: sig.Results(), Tup: rs, KnownLen: -1}
}

func (e *Eng) execCallWith(fr *Frame, ins ssa.Instruction, c *ssa.CallCommon, fnv *Val, args []*Val, st *State, g string, isDefer bool) *Val {
	fr.siteIns = ins
	defer func() { fr.siteIns = nil }()
	// names a ghost assignment at this site may use besides the function's own variables: the receiver of an
	// interface call (recv) and, when the receiver was read from a field `x.f`, the object x it belongs to (recvOwner)
	e.siteExtra = map[string]*Val{}
	for i, a := range args {
		e.siteExtra[fmt.Sprintf("arg%d", i)] = a
	}
	if c.IsInvoke() && fnv != nil {
		e.siteExtra["recv"] = fnv
		if u, ok := c.Value.(*ssa.UnOp); ok {
			if fa, ok := u.X.(*ssa.FieldAddr); ok {
				if base, ok := fr.vals[fa.X]; ok {
					e.siteExtra["recvOwner"] = base
				}
			}
		}
	}
	extra := e.siteExtra
	e.siteSetsWhen(fr, "call", calleeName(c), st, g, nil, true)
	res := e.execCallInner(fr, ins, c, fnv, args, st, g, isDefer)
	e.siteExtra = extra
	e.siteSetsWhen(fr, "call", calleeName(c), st, g, res, false)
	e.siteExtra = nil
	e.siteLemmasAfter(fr, "call", calleeName(c), ins.Pos(), st, g, res)
	return res
}

func (e *Eng) execCallInner(fr *Frame, ins ssa.Instruction, c *ssa.CallCommon, fnv *Val, args []*Val, st *State, g string, isDefer bool) *Val {
	pos := ins.Pos()
	name := calleeName(c)
	// site assertions written in the contract of the enclosing function
	amap := map[string]*Val{}
	for i, a := range args {
		amap[fmt.Sprintf("arg%d", i)] = a
	}
	if c.IsInvoke() {
		amap["recv"] = fnv
	}
	if !c.IsInvoke() {
		if f := c.StaticCallee(); f != nil {
			for i, p := range f.Params {
				if i < len(args) {
					amap[p.Name()] = args[i]
				}
			}
		}
	}
	e.siteAsserts(fr, "call", name, pos, st, g, amap)
	if sf, own := fr.specFrame(); sf != nil && own {
		for _, s := range sf.fspec.Sites {
			if s.Kind == "call" && s.Callee == name && s.Later != "" && (s.Ordinal == 0 || s.Ordinal == e.siteOrdinal(sf, "call", name)) {
				if cv := amap[s.Later]; cv != nil && cv.Clo != nil {
					e.siteHit(s)
					e.simulateLater(fr, cv.Clo, st, g, pos)
				} else {
					e.errf("later %s at %s: the argument is not a closure literal", s.Later, name)
				}
			}
		}
	}

	if c.IsInvoke() {
		e.oblige("nil", descr(c.Value, 0)+"."+c.Method.Name(), e.safety(fr), pos, g, not(eq(fnv.T, "0")))
		if is := e.spec.Ifaces[name]; is != nil {
			return e.applyIfaceSpec(fr, is, c, fnv, args, st, g, pos)
		}
		if h, ok := ifaceHandlers[name]; ok {
			if r := h(e, fr, c, fnv, args, st, g, pos); r != nil {
				return r
			}
		}
		e.note("interface call %s: no spec; results arbitrary, may write through pointer/slice arguments only", name)
		return e.defaultCall(c, args, st)
	}
	if b, ok := c.Value.(*ssa.Builtin); ok {
		return e.execBuiltin(fr, ins, b, c, args, st, g)
	}
	var callee *ssa.Function
	var bindings []*Val
	if f := c.StaticCallee(); f != nil {
		callee = f
		if fnv != nil && fnv.Clo != nil {
			bindings = fnv.Clo.Bindings
		}
	} else if fnv != nil && fnv.Clo != nil {
		callee = fnv.Clo.Fn
		bindings = fnv.Clo.Bindings
	}
	if callee == nil {
		if pos.IsValid() {
			e.oblige("nil", "func:"+descr(c.Value, 0), e.safety(fr), pos, g, not(eq(fnv.T, "0")))
		}
		e.note("dynamic call of %s in %s: results arbitrary, assumed not to touch memberlist state", descr(c.Value, 0), fnKey(fr.fn))
		return e.defaultCall(c, args, st)
	}
	key := fnKey(callee)
	// bound method wrappers / thunks: unwrap by inlining (they are tiny)
	if h, ok := externHandlers[key]; ok {
		if r := h(e, fr, c, args, st, g, pos); r != nil {
			return r
		}
	}
	inPkg := callee.Pkg == e.ld.ssaPkg || (callee.Pkg == nil && callee.Synthetic != "" && len(callee.Blocks) > 0 && strings.Contains(key, "Memberlist")) ||
		(callee.Parent() != nil && callee.Parent().Pkg == e.ld.ssaPkg)
	if callee.Pkg == nil && callee.Synthetic != "" && len(callee.Blocks) > 0 {
		// wrappers (bound methods, promoted methods): always inline
		inPkg = true
	}
	if inPkg {
		if fs := e.spec.Funcs[key]; fs != nil && callee != e.rootFn && !fs.InlineOnly && (len(fs.Ensures) > 0 || len(fs.Requires) > 0 || fs.Modular) {
			return e.applyFuncSpec(fr, fs, callee, c, args, st, g, pos)
		}
		// inline
		rec := false
		for _, f := range e.inlineStack {
			if f == callee {
				rec = true
			}
		}
		if rec || len(e.inlineStack) >= e.maxInline || len(callee.Blocks) == 0 {
			e.note("call to %s from %s not inlined (recursion/depth): results arbitrary, effects over its static write set", key, fnKey(fr.fn))
			return e.havocCall(callee, c, args, st)
		}
		e.inlineStack = append(e.inlineStack, callee)
		e.sc.comment("inline " + key)
		var cfs *FuncSpec
		if fs := e.spec.Funcs[key]; fs != nil {
			cfs = fs
		}
		e.pendingNonNil = fr.knownNonNilAt(ins.Block())
		e.pendingUp = fr
		res, out, outG := e.execFunc(callee, args, bindings, st, g, fr.depth+1, cfs, e.namePrefix+"in:"+key+"/")
		e.inlineStack = e.inlineStack[:len(e.inlineStack)-1]
		e.sc.comment("end inline " + key)
		// continue in merged exit state; paths that panicked are cut (obligations already emitted)
		st.reg = out.reg
		st.held = out.held
		if out.monOld != nil {
			st.monOld = out.monOld
		}
		if outG != g {
			// the callee may not return on every path (panic): those paths were obliged unreachable
		}
		return e.packResults(c, res)
	}
	// external without handler
	if isIgnoredExternal(key) {
		return e.havocResults(c, st)
	}
	e.note("external %s: no spec; results arbitrary, may write through pointer/slice arguments only", key)
	return e.defaultCall(c, args, st)
}

// defaultCall: arbitrary results; memory reachable one level through pointer/slice args is havocked.
func (e *Eng) defaultCall(c *ssa.CallCommon, args []*Val, st *State) *Val {
	for _, a := range args {
		e.havocThrough(st, a)
	}
	return e.havocResults(c, st)
}

func (e *Eng) havocResults(c *ssa.CallCommon, st *State) *Val {
	sig := c.Signature()
	var rs []*Val
	for i := 0; i < sig.Results().Len(); i++ {
		rs = append(rs, e.havocVal(st, "res", sig.Results().At(i).Type()))
	}
	return e.packResults(c, rs)
}

func (e *Eng) havocThrough(st *State, a *Val) {
	if a == nil || a.Typ == nil {
		return
	}
	if a.Boxed != nil {
		// an interface holding a pointer (e.g. the `out any` of a decoder): the callee may write through it
		e.havocThrough(st, a.Boxed)
		return
	}
	switch u := types.Unalias(a.Typ).Underlying().(type) {
	case *types.Slice:
		r, rs := e.elemRegion(u.Elem())
		cur := e.get(st, r, rs)
		fresh := e.sc.havoc("hvarr", "(Array Int "+e.sortOf(u.Elem())+")")
		e.set(st, r, rs, ite(eq(sx("s_arr", a.T), "0"), cur, sto(cur, sx("s_arr", a.T), fresh)), "external may write slice elements")
	case *types.Pointer:
		pt := u.Elem()
		if a.Loc != nil {
			nv := e.havocVal(st, "hvcell", pt)
			e.store(st, a.Loc, nv.T, "external may write through pointer")
			return
		}
		if isStructValue(pt) {
			s := structOf(pt)
			for i := 0; i < s.NumFields(); i++ {
				if isStructValue(s.Field(i).Type()) {
					continue
				}
				r, rs := e.fieldRegion(pt, i)
				nv := e.sc.havoc("hvf", e.sortOf(s.Field(i).Type()))
				e.set(st, r, rs, sto(e.get(st, r, rs), a.T, nv), "external may write object field")
			}
		} else if _, ok := opaqueScalar(pt); !ok {
			l := e.locOfPtr(a)
			nv := e.havocVal(st, "hvcell", pt)
			e.store(st, l, nv.T, "external may write through pointer")
		}
	}
}

// havocCall: un-inlined in-package callee: havoc its static write set.
func (e *Eng) havocCall(callee *ssa.Function, c *ssa.CallCommon, args []*Val, st *State) *Val {
	oldFr := e.get(st, frRegion, "Int")
	mods := e.modSet(callee)
	gen := e.modGeneral[callee]
	for _, r := range sortedKeys(mods) {
		if gen != nil && !gen[r] && r != frRegion && r != clockRegion {
			e.havocRegFresh(st, r, oldFr)
		} else {
			e.havocReg(st, r)
		}
	}
	e.sc.assume(sx(">=", e.get(st, frRegion, "Int"), oldFr), "frontier monotone over call")
	return e.havocResults(c, st)
}

// ---------- builtins ----------

func (e *Eng) execBuiltin(fr *Frame, ins ssa.Instruction, b *ssa.Builtin, c *ssa.CallCommon, args []*Val, st *State, g string) *Val {
	pos := ins.Pos()
	name := fr.fn.Name() + "_bi"
	switch b.Name() {
	case "len", "cap":
		a := args[0]
		var t string
		switch u := types.Unalias(a.Typ).Underlying().(type) {
		case *types.Slice:
			if b.Name() == "len" {
				t = sx("s_len", a.T)
			} else {
				t = sx("s_cap", a.T)
			}
		case *types.Basic:
			t = sx("strlen", a.T)
		case *types.Map:
			r, rs := e.mapLenRegion(u)
			t = ite(eq(a.T, "0"), "0", sel(e.get(st, r, rs), a.T))
		case *types.Chan:
			v := e.havocVal(st, "chanlen", types.Typ[types.Int])
			e.sc.assume(sx(">=", v.T, "0"), "chan len")
			e.note("len(chan) in %s: arbitrary non-negative", fnKey(fr.fn))
			return v
		case *types.Array:
			t = fmt.Sprint(u.Len())
		case *types.Pointer:
			t = fmt.Sprint(u.Elem().Underlying().(*types.Array).Len())
		default:
			e.errf("len of %v", a.Typ)
			t = "0"
		}
		n := e.sc.define(name+"_"+b.Name(), "Int", t, ins.String())
		if _, ok := types.Unalias(a.Typ).Underlying().(*types.Map); ok {
			e.sc.assume(sx(">=", n, "0"), "map len")
		}
		return &Val{T: n, Typ: types.Typ[types.Int], KnownLen: -1}
	case "append":
		return e.execAppend(fr, ins, args, st, g)
	case "copy":
		dst, src := args[0], args[1]
		var slen string
		if isString(src.Typ) {
			slen = sx("strlen", src.T)
		} else {
			slen = sx("s_len", src.T)
		}
		n := e.sc.define(name+"_copyn", "Int", ite(sx("<", sx("s_len", dst.T), slen), sx("s_len", dst.T), slen), "copy count")
		et := types.Unalias(dst.Typ).Underlying().(*types.Slice).Elem()
		r, rs := e.elemRegion(et)
		cur := e.get(st, r, rs)
		oldArr := sel(cur, sx("s_arr", dst.T))
		newArr := e.sc.havoc("copyarr", "(Array Int "+e.sortOf(et)+")")
		var srcAt string
		if isString(src.Typ) {
			srcAt = sx("strat", src.T, "j")
		} else {
			srcAt = sel(sel(cur, sx("s_arr", src.T)), idxAt(sx("s_off", src.T), "j"))
		}
		e.sc.assume(fmt.Sprintf("(forall ((i Int)) (! (= (select %s i) (ite (and (<= %s i) (< i (+ %s %s))) (let ((j (- i %s))) %s) (select %s i))) :pattern ((select %s i))))",
			newArr, sx("s_off", dst.T), sx("s_off", dst.T), n, sx("s_off", dst.T), srcAt, oldArr, newArr), "copy semantics")
		e.set(st, r, rs, ite(sx(">", n, "0"), sto(cur, sx("s_arr", dst.T), newArr), cur), "copy")
		return &Val{T: n, Typ: types.Typ[types.Int], KnownLen: -1}
	case "delete":
		m, k := args[0], args[1]
		mt := types.Unalias(m.Typ).Underlying().(*types.Map)
		e.checkProtectedRegionWrite(fr, st, "MH."+typeKey(mt.Key())+"."+typeKey(mt.Elem()), pos, g)
		e.mapDelete(st, mt, m.T, k.T)
		return &Val{T: "0", KnownLen: -1}
	case "close":
		ch := args[0]
		cr := e.get(st, chanClosedRegion, "(Array Int Bool)")
		e.oblige("close", descr(c.Args[0], 0), e.safety(fr), pos, g, and(not(eq(ch.T, "0")), not(sel(cr, ch.T))))
		e.set(st, chanClosedRegion, "(Array Int Bool)", sto(cr, ch.T, "true"), "close")
		return &Val{T: "0", KnownLen: -1}
	case "min", "max":
		t := args[0].T
		op := "<"
		if b.Name() == "max" {
			op = ">"
		}
		for _, a := range args[1:] {
			t = ite(sx(op, a.T, t), a.T, t)
		}
		n := e.sc.define(name+"_"+b.Name(), e.sortOf(args[0].Typ), t, ins.String())
		return &Val{T: n, Typ: args[0].Typ, KnownLen: -1}
	case "recover":
		return &Val{T: "0", Typ: c.Signature().Results().At(0).Type(), KnownLen: -1}
	case "print", "println":
		return &Val{T: "0", KnownLen: -1}
	case "clear":
		e.note("clear() abstracted in %s", fnKey(fr.fn))
		e.havocThrough(st, args[0])
		return &Val{T: "0", KnownLen: -1}
	}
	e.errf("builtin %s unsupported", b.Name())
	return e.havocResults(c, st)
}

func (e *Eng) mapLenRegion(mt *types.Map) (string, string) {
	_ = mt
	return mapLenRegion + "." + typeKey(mt.Key()) + "." + typeKey(mt.Elem()), mapLenSort
}

func (e *Eng) execAppend(fr *Frame, ins ssa.Instruction, args []*Val, st *State, g string) *Val {
	s, t := args[0], args[1]
	et := types.Unalias(s.Typ).Underlying().(*types.Slice).Elem()
	r, rs := e.elemRegion(et)
	es := e.sortOf(et)
	name := fr.fn.Name() + "_app"
	var tlen string
	if isString(t.Typ) {
		tlen = sx("strlen", t.T)
	} else {
		tlen = sx("s_len", t.T)
	}
	slen := sx("s_len", s.T)
	n := e.sc.define(name+"_n", "Int", sx("+", slen, tlen), "append: new length")
	fits := e.sc.define(name+"_fits", "Bool", sx("<=", n, sx("s_cap", s.T)), "append: in place")
	cur := e.get(st, r, rs)
	srcElem := func(j string) string {
		if isString(t.Typ) {
			return sx("strat", t.T, j)
		}
		return sel(sel(cur, sx("s_arr", t.T)), idxAt(sx("s_off", t.T), j))
	}
	// fresh array branch
	ref := e.alloc(st, "append grow")
	newCap := e.sc.havoc(name+"_cap", "Int")
	e.sc.assume(sx(">=", newCap, n), "append: grown capacity")
	oldArr := sel(cur, sx("s_arr", s.T))
	var inPlaceArr, grownArr string
	if t.KnownLen >= 0 && t.KnownLen <= 8 {
		inPlaceArr = oldArr
		grownArr = e.sc.havoc(name+"_grown", "(Array Int "+es+")")
		e.sc.assume(fmt.Sprintf("(forall ((i Int)) (! (=> (and (<= 0 i) (< i %s)) (= (select %s i) (select %s (at %s i)))) :pattern ((select %s i))))",
			slen, grownArr, oldArr, sx("s_off", s.T), grownArr), "append: prefix copied")
		ga := grownArr
		for j := 0; j < t.KnownLen; j++ {
			js := fmt.Sprint(j)
			inPlaceArr = sto(inPlaceArr, idxAt(sx("s_off", s.T), sx("+", slen, js)), srcElem(js))
			ga = sto(ga, sx("+", slen, js), srcElem(js))
		}
		grownArr = ga
	} else {
		ip := e.sc.havoc(name+"_inplace", "(Array Int "+es+")")
		e.sc.assume(fmt.Sprintf("(forall ((i Int)) (! (= (select %s i) (ite (and (<= (+ %s %s) i) (< i (+ %s %s))) (let ((j (- i (+ %s %s)))) %s) (select %s i))) :pattern ((select %s i))))",
			ip, sx("s_off", s.T), slen, sx("s_off", s.T), n, sx("s_off", s.T), slen, srcElem("j"), oldArr, ip), "append in place")
		inPlaceArr = ip
		ga := e.sc.havoc(name+"_grown", "(Array Int "+es+")")
		e.sc.assume(fmt.Sprintf("(forall ((i Int)) (! (=> (and (<= 0 i) (< i %s)) (= (select %s i) (ite (< i %s) (select %s (at %s i)) (let ((j (- i %s))) %s)))) :pattern ((select %s i))))",
			n, ga, slen, oldArr, sx("s_off", s.T), slen, srcElem("j"), ga), "append grown")
		grownArr = ga
	}
	// a zero-length append to a nil slice stays nil
	stay := e.sc.define(name+"_noop", "Bool", and(eq(tlen, "0")), "append of nothing")
	newHeap := ite(stay, cur, ite(fits, sto(cur, sx("s_arr", s.T), inPlaceArr), sto(cur, ref, grownArr)))
	e.checkProtectedRegionWrite(fr, st, r, ins.Pos(), and(g, not(stay), fits))
	e.set(st, r, rs, newHeap, "append")
	res := ite(stay, s.T, ite(fits, fmt.Sprintf("(mk_slice %s %s %s %s)", sx("s_arr", s.T), sx("s_off", s.T), n, sx("s_cap", s.T)),
		fmt.Sprintf("(mk_slice %s 0 %s %s)", ref, n, newCap)))
	rn := e.sc.define(name, "Slice", res, ins.String())
	return &Val{T: rn, Typ: s.Typ, KnownLen: -1}
}

// ---------- contracts at call sites ----------

func (e *Eng) bindParams(fs *FuncSpec, callee *ssa.Function, args []*Val) *Env {
	env := e.newEnv()
	for i, p := range callee.Params {
		if i < len(args) {
			env.vars[p.Name()] = args[i]
			if i < len(fs.ParamNames) && fs.ParamNames[i] != "" {
				env.vars[fs.ParamNames[i]] = args[i]
			}
		}
	}
	return env
}

func (e *Eng) applyFuncSpec(fr *Frame, fs *FuncSpec, callee *ssa.Function, c *ssa.CallCommon, args []*Val, st *State, g string, pos token.Pos) *Val {
	key := fnKey(callee)
	env := e.bindParams(fs, callee, args)
	e.sc.comment("modular call " + key)
	covN := e.coverCall(fr, key, g, 0, len(fs.Ensures) > 0)
	for _, rq := range fs.Requires {
		t := e.evalClauseEnv(rq, env, st, st)
		e.oblige("pre", key+"/"+rq.Label, e.preProps(fr, rq), pos, g, t)
	}
	// held-lock discipline
	if fs.Monitor != "" {
		if st.held[fs.Monitor] != "" {
			e.oblige("relock", fs.Monitor+" via "+key, e.safety(fr), pos, g, "false")
		}
	}
	old := st.clone()
	if fs.Monitor != "" {
		if ls := e.spec.Locks[fs.Monitor]; ls != nil && len(args) > 0 {
			e.havocProtected(st, ls)
			e.assumeLockInvs(ls, args[0], st, g)
			old = st.clone()
		}
	}
	mods := e.modSet(callee)
	if len(fs.Assigns) > 0 {
		mods = map[string]bool{}
		for _, a := range fs.Assigns {
			for _, r := range e.resolveRegionPattern(a) {
				mods[r] = true
			}
		}
		mods[frRegion] = true
	}
	oldFr := e.get(st, frRegion, "Int")
	oldClock := e.get(st, clockRegion, "Int")
	var gen map[string]bool
	if len(fs.Assigns) == 0 {
		gen = e.modGeneral[callee]
	}
	for _, r := range sortedKeys(mods) {
		if gen != nil && !gen[r] && r != frRegion && r != clockRegion {
			e.havocRegFresh(st, r, oldFr)
		} else {
			e.havocReg(st, r)
		}
	}
	e.sc.assume(sx(">=", e.get(st, frRegion, "Int"), oldFr), "frontier monotone over call")
	e.sc.assume(sx(">=", e.get(st, clockRegion, "Int"), oldClock), "clock monotone over call")
	sig := callee.Signature
	var rs []*Val
	for i := 0; i < sig.Results().Len(); i++ {
		rs = append(rs, e.havocVal(st, "res_"+callee.Name(), sig.Results().At(i).Type()))
	}
	env.result = rs
	if len(fs.Ensures) > 0 {
		env = e.withLets(fs, env, st, old)
	}
	for _, en := range fs.Ensures {
		if en.Internal {
			continue
		}
		t := e.evalClauseEnv(en, env, st, old)
		e.sc.assume(implies(g, t), "callee ensures "+key+"/"+en.Label)
	}
	e.coverCall(fr, key, g, covN, len(fs.Ensures) > 0)
	if fs.Monitor != "" {
		if ls := e.spec.Locks[fs.Monitor]; ls != nil && len(args) > 0 {
			e.assumeLockInvs(ls, args[0], st, g)
			if st.held[fs.Monitor] == "" {
				// the callee released the lock before returning: what it protects may have moved on since
				e.havocProtected(st, ls)
				e.assumeLockInvs(ls, args[0], st, g)
			}
		}
	}
	return e.packResults(c, rs)
}

func mergeProps(a, b []string) []string {
	seen := map[string]bool{}
	var out []string
	for _, x := range append(append([]string{}, a...), b...) {
		if !seen[x] {
			seen[x] = true
			out = append(out, x)
		}
	}
	return out
}

func (e *Eng) applyIfaceSpec(fr *Frame, is *IfaceSpec, c *ssa.CallCommon, recv *Val, args []*Val, st *State, g string, pos token.Pos) *Val {
	env := e.newEnv()
	env.vars["recv"] = recv
	for i, a := range args {
		if i < len(is.ParamNames) {
			env.vars[is.ParamNames[i]] = a
		}
	}
	for _, rq := range is.Requires {
		t := e.evalClauseEnv(rq, env, st, st)
		e.oblige("pre", is.Key+"/"+rq.Label, e.preProps(fr, rq), pos, g, t)
	}
	if is.RequiresHeld != "" {
		ok := "false"
		if st.held[is.RequiresHeld] == "W" {
			ok = "true"
		}
		e.oblige("held", is.RequiresHeld+" at "+is.Key, is.HeldProps, pos, g, ok)
	}
	covN := e.coverCall(fr, is.Key, g, 0, len(is.Ensures) > 0)
	old := st.clone()
	oldFr := e.get(st, frRegion, "Int")
	for _, a := range is.Assigns {
		// "fresh <pattern>": the implementation may allocate and fill new objects of that region, existing ones are untouched
		if strings.HasPrefix(a, "fresh ") {
			if st.reg[frRegion] == oldFr {
				e.havocReg(st, frRegion)
				e.sc.assume(sx(">=", e.get(st, frRegion, "Int"), oldFr), "frontier monotone over call")
			}
			for _, r := range e.resolveRegionPattern(strings.TrimPrefix(a, "fresh ")) {
				e.havocRegFresh(st, r, oldFr)
			}
			continue
		}
		for _, r := range e.resolveRegionPattern(a) {
			e.havocReg(st, r)
		}
	}
	sig := c.Signature()
	var rs []*Val
	for i := 0; i < sig.Results().Len(); i++ {
		rs = append(rs, e.havocVal(st, "res_"+c.Method.Name(), sig.Results().At(i).Type()))
	}
	env.result = rs
	for _, en := range is.Ensures {
		t := e.evalClauseEnv(en, env, st, old)
		e.sc.assume(implies(g, t), "iface ensures "+is.Key+"/"+en.Label)
	}
	e.coverCall(fr, is.Key, g, covN, len(is.Ensures) > 0)
	return e.packResults(c, rs)
}

// siteSets: `at call <callee>: set $g := e` executed after the call (res = its result).
// hasOwnSite: the function of this frame itself contains a call (go statement, make) of that kind and name.
func (e *Eng) hasOwnSite(fr *Frame, kind, name string) bool {
	if fr.ownSites == nil {
		fr.ownSites = map[string]bool{}
		for _, b := range fr.fn.Blocks {
			for _, ins := range b.Instrs {
				switch x := ins.(type) {
				case *ssa.Call:
					fr.ownSites["call:"+calleeName(x.Common())] = true
				case *ssa.Defer:
					fr.ownSites["call:"+calleeName(x.Common())] = true
				case *ssa.Go:
					fr.ownSites["go:"+calleeName(x.Common())] = true
				case *ssa.MakeSlice:
					fr.ownSites["make:"+descr(x.Len, 0)] = true
				}
			}
		}
	}
	return fr.ownSites[kind+":"+name]
}

// specFrame: the frame whose contract speaks about the code being executed: the frame itself if its function is under
// contract, otherwise the nearest frame it is inlined into that is (a helper extracted from a function under contract
// is still that function's code; clauses with a site ordinal refer to the function's own source and do not apply there).
func (fr *Frame) specFrame() (*Frame, bool) {
	if fr.fspec != nil {
		return fr, true
	}
	for f := fr.up; f != nil; f = f.up {
		if f.fspec != nil {
			return f, false
		}
	}
	return nil, false
}

func (e *Eng) siteSetsWhen(fr0 *Frame, kind, name string, st *State, g string, res *Val, before bool) {
	fr, own := fr0.specFrame()
	if fr == nil {
		return
	}
	for _, s := range fr.fspec.Sites {
		if s.Kind != kind || s.Callee != name || s.SetGhost == "" || s.Before != before {
			continue
		}
		if s.Ordinal != 0 && (!own || s.Ordinal != e.siteOrdinal(fr, kind, name)) {
			continue
		}
		env := e.siteEnv(fr)
		for k, v := range e.siteExtra {
			env.vars[k] = v
		}
		if res != nil {
			env.vars["res"] = res
			if res.Tup != nil {
				for i, r := range res.Tup {
					env.vars[fmt.Sprintf("res%d", i)] = r
				}
			}
		}
		gt, ok := e.spec.Ghosts[s.SetGhost]
		if !ok {
			e.errf("set of undeclared ghost %s", s.SetGhost)
			continue
		}
		_, srt := e.specType(gt)
		func() {
			defer func() {
				if r := recover(); r != nil {
					e.errf("ghost set %s: %v", s.SetGhost, r)
				}
			}()
			v := e.eval(s.SetExpr, env, st, fr.oldFor(st))
			e.set(st, "G."+s.SetGhost, srt, v.T, "ghost set at "+name)
			e.siteHit(s)
		}()
	}
}

// siteAsserts: `at call <callee>: assert ...` clauses of the enclosing (root or inlined) function.
func (e *Eng) siteAsserts(fr0 *Frame, kind, name string, pos token.Pos, st *State, g string, extra map[string]*Val) {
	fr, own := fr0.specFrame()
	if fr == nil {
		return
	}
	for _, s := range fr.fspec.Sites {
		if s.Kind != kind || s.Callee != name || s.SetGhost != "" || s.After || s.Iter || s.Later != "" {
			continue
		}
		if s.Ordinal != 0 && (!own || s.Ordinal != e.siteOrdinal(fr, kind, name)) {
			continue
		}
		env := e.siteEnv(fr)
		// the callee's parameter names denote the actual arguments at this site (they shadow locals of the
		// same name; the caller's own parameters keep priority and the arguments stay reachable as $name)
		own := map[string]bool{}
		for _, p := range fr.fn.Params {
			own[p.Name()] = true
		}
		for k, v := range extra {
			env.vars["$"+k] = v
			if !own[k] {
				env.vars[k] = v
			}
		}
		t := e.evalClause(s.Clause, env, st, fr.oldFor(st), fr)
		e.siteHit(s)
		if s.Lemma {
			e.oblige("site-lemma", kind+":"+name+"/"+s.Clause.Label, s.Clause.Props, pos, g, t)
		} else {
			e.oblige("site", kind+":"+name+"/"+s.Clause.Label, s.Clause.Props, pos, g, t)
		}
	}
}

// ---------- locks ----------

func lockKeyOf(v *Val, e *Eng) string {
	if v.Loc != nil && v.Loc.Kind == LField {
		return e.structName(v.Loc.ST) + "." + structOf(v.Loc.ST).Field(v.Loc.Idx).Name()
	}
	return ""
}

func (e *Eng) lockOp(fr *Frame, op string, recv *Val, st *State, g string, pos token.Pos) {
	key := lockKeyOf(recv, e)
	if key == "" {
		e.note("lock operation on unidentified mutex in %s", fnKey(fr.fn))
		return
	}
	ls := e.spec.Locks[key]
	base := &Val{T: recv.Loc.Base, Typ: types.NewPointer(recv.Loc.ST), KnownLen: -1}
	switch op {
	case "Lock", "RLock":
		if st.held[key] != "" {
			e.oblige("relock", key, e.safety(fr), pos, g, "false")
		}
		// while we waited for the lock other goroutines may have moved the atomic cells on (within their rely)
		e.relyStepAll(st)
		if ls != nil {
			e.havocProtected(st, ls)
			e.assumeLockInvs(ls, base, st, g)
		}
		if op == "Lock" {
			st.held[key] = "W"
		} else {
			st.held[key] = "R"
		}
		if st.heldBase == nil {
			st.heldBase = map[string]*Val{}
		}
		st.heldBase[key] = base
		if rs := e.rootSpec(); rs != nil && rs.Monitor == key && st.monOld == nil && len(e.inlineStack) == 0 {
			st.monOld = st.clone()
			// per-path record of the state right after acquisition (paths that never lock fall back to the entry state)
			for _, k := range sortedKeys(st.monOld.reg) {
				if strings.HasPrefix(k, "@") {
					continue
				}
				e.regionSort["@old."+k] = e.regionSort[k]
				st.reg["@old."+k] = st.monOld.reg[k]
			}
		}
	case "Unlock":
		if ls != nil {
			env := e.newEnv()
			env.vars[ls.Recv] = base
			for _, inv := range ls.Invs {
				t := e.evalClauseEnv(inv, env, st, st)
				e.oblige("lockinv", key+"/"+inv.Label, inv.Props, pos, g, t)
			}
		}
		delete(st.held, key)
		e.releaseLock(st, ls, key, base, g)
	case "RUnlock":
		delete(st.held, key)
		e.releaseLock(st, ls, key, base, g)
	}
}

// releaseLock: once the lock is released other goroutines may change what it protects. For a monitor
// function the state at the moment of release is kept under "@post." names: that is the state its
// postconditions talk about.
func (e *Eng) releaseLock(st *State, ls *LockSpec, key string, base *Val, g string) {
	if ls == nil {
		return
	}
	rs := e.rootSpec()
	isMon := rs != nil && rs.Monitor == key
	for _, p := range ls.Protects {
		for _, r := range e.resolveRegionPattern(p) {
			if isMon {
				e.regionSort["@post."+r] = e.regionSort[r]
				st.reg["@post."+r] = e.get(st, r, e.regionSort[r])
			}
		}
	}
	if e.atRootExit && len(e.inlineStack) == 0 {
		// released by a deferred call of the root function itself: the function returns next, its
		// postconditions are evaluated on the "@post." view, so the interference step is not needed
		return
	}
	e.havocProtected(st, ls)
	e.assumeLockInvs(ls, base, st, g)
}

// oldView: what old(...) means in a monitor function's postconditions: the state right after the lock was
// acquired on paths that acquired it, the entry state on paths that returned before.
func (e *Eng) oldView(st *State, entry *State) *State {
	v := entry.clone()
	for k := range e.regionSort {
		if strings.HasPrefix(k, "@old.") {
			base := strings.TrimPrefix(k, "@old.")
			v.reg[base] = e.get(st, k, e.regionSort[k])
		}
	}
	return v
}

// postView: the state a monitor function's postconditions are evaluated in (protected regions as of the release).
func (e *Eng) postView(st *State) *State {
	v := st.clone()
	for k, t := range st.reg {
		if strings.HasPrefix(k, "@post.") {
			v.reg[strings.TrimPrefix(k, "@post.")] = t
		}
	}
	return v
}

func (e *Eng) rootSpec() *FuncSpec {
	if e.rootFn == nil {
		return nil
	}
	return e.spec.Funcs[fnKey(e.rootFn)]
}

func (e *Eng) havocProtected(st *State, ls *LockSpec) {
	for _, p := range ls.Protects {
		for _, r := range e.resolveRegionPattern(p) {
			before := e.get(st, r, e.regionSort[r])
			e.havocReg(st, r)
			// objects allocated by the function under verification and not yet stored anywhere
			// (unpublished) cannot have been written by other goroutines: they keep their contents
			if strings.HasPrefix(r, "F.") || strings.HasPrefix(r, "C.") {
				for _, ref := range sortedKeys(e.allocRefs) {
					if e.published[ref] {
						continue
					}
					pt := e.allocType[ref]
					if pt == nil {
						continue
					}
					if strings.HasPrefix(r, "C.") {
						if cr, _ := e.cellRegion(pt); !isStructValue(pt) && cr == r {
							e.sc.assume(eq(sel(st.reg[r], ref), sel(before, ref)), "unpublished local cell keeps its value across lock acquisition")
						}
						continue
					}
					if !isStructValue(pt) {
						continue
					}
					// fields of the object itself and of its embedded structs
					var walk func(t types.Type, ptr string)
					walk = func(t types.Type, ptr string) {
						s := structOf(t)
						for i := 0; i < s.NumFields(); i++ {
							ft := s.Field(i).Type()
							if isStructValue(ft) {
								walk(ft, e.subPtr(t, i, ptr))
								continue
							}
							if fr, _ := e.fieldRegion(t, i); fr == r {
								e.sc.assume(eq(sel(st.reg[r], ptr), sel(before, ptr)), "unpublished local object keeps its fields across lock acquisition")
							}
						}
					}
					walk(pt, ref)
				}
			}
		}
	}
}

func (e *Eng) assumeLockInvs(ls *LockSpec, recv *Val, st *State, g string) {
	env := e.newEnv()
	env.vars[ls.Recv] = recv
	for _, inv := range ls.Invs {
		t := e.evalClauseEnv(inv, env, st, st)
		e.sc.assume(implies(g, t), "lock invariant "+ls.Key+"/"+inv.Label)
	}
	for _, as := range ls.Assumes {
		t := e.evalClauseEnv(as, env, st, st)
		e.sc.assume(implies(g, t), "ASSUMPTION "+ls.Key+"/"+as.Label)
		e.note("assumption %s/%s (not proved): %s", ls.Key, as.Label, as.Raw)
	}
}

// checkProtectedWrite: a store into a region protected by a lock requires the write lock,
// unless the object written is provably fresh (allocated in this function) -- we only
// enforce this for functions that ask for it (`discipline`).
func (e *Eng) checkProtectedWrite(fr *Frame, st *State, l *Loc, pos token.Pos, g string) {
	var region string
	switch l.Kind {
	case LField:
		region, _ = e.fieldRegion(l.ST, l.Idx)
	case LElem:
		region, _ = e.elemRegion(l.ET)
	default:
		return
	}
	e.checkProtectedRegionWrite(fr, st, region, pos, g)
}

func (e *Eng) checkProtectedRegionWrite(fr *Frame, st *State, region string, pos token.Pos, g string) {
	rs := e.rootSpec()
	if rs == nil || !rs.Discipline {
		return
	}
	for _, lk := range sortedKeys(e.spec.Locks) {
		ls := e.spec.Locks[lk]
		if !ls.Strict {
			continue
		}
		for _, p := range ls.Protects {
			for _, r := range e.resolveRegionPattern(p) {
				if r == region || (strings.HasPrefix(region, "MH.") && strings.HasPrefix(r, "MH.") && r == region) {
					ok := "false"
					if st.held[lk] == "W" {
						ok = "true"
					}
					e.oblige("unlocked-write", region+" needs "+lk, rs.DisciplineProps, pos, g, ok)
				}
			}
		}
	}
}

// resolveRegionPattern maps a pattern from the contracts file to region names:
//   T.f        -> F.T.f          T.*   -> all fields of T (incl. embedded, recursively)
//   elems <type>  -> E.<type>    map <maptype> -> MH./MV./ML. of that type
//   cell <type>   -> C.<type>    $ghost -> G.$ghost   raw region names pass through
func (e *Eng) resolveRegionPattern(p string) []string {
	p = strings.TrimSpace(p)
	if strings.HasPrefix(p, "$") {
		if p == "$nothing" {
			return nil
		}
		if p == chanClosedRegion {
			e.regInit(chanClosedRegion, "(Array Int Bool)")
			return []string{chanClosedRegion}
		}
		gt, ok := e.spec.Ghosts[p]
		if !ok {
			e.errf("unknown ghost %s in region pattern", p)
			return nil
		}
		_, srt := e.specType(gt)
		e.regInit("G."+p, srt)
		return []string{"G." + p}
	}
	if p == btItems || p == btLen {
		e.btInit()
		return []string{p}
	}
	if strings.HasPrefix(p, "elems ") {
		t := e.ld.typeOf(strings.TrimSpace(p[6:]))
		if t == nil {
			e.errf("bad type in region pattern %q", p)
			return nil
		}
		r, rs := e.elemRegion(t)
		e.regInit(r, rs)
		return []string{r}
	}
	if strings.HasPrefix(p, "map ") {
		t := e.ld.typeOf(strings.TrimSpace(p[4:]))
		mt, ok := t.(*types.Map)
		if t == nil || !ok {
			if t != nil {
				mt, ok = t.Underlying().(*types.Map)
			}
			if !ok {
				e.errf("bad map type in region pattern %q", p)
				return nil
			}
		}
		hr, hs, vr, vs := e.mapRegions(mt)
		lr, ls := e.mapLenRegion(mt)
		e.regInit(hr, hs)
		e.regInit(vr, vs)
		e.regInit(lr, ls)
		return []string{hr, vr, lr}
	}
	if strings.HasPrefix(p, "cell ") {
		t := e.ld.typeOf(strings.TrimSpace(p[5:]))
		if t == nil {
			e.errf("bad type in region pattern %q", p)
			return nil
		}
		r, rs := e.cellRegion(t)
		e.regInit(r, rs)
		return []string{r}
	}
	if i := strings.LastIndex(p, "."); i > 0 && !strings.HasPrefix(p, "F.") && !strings.HasPrefix(p, "E.") && !strings.HasPrefix(p, "MH.") && !strings.HasPrefix(p, "MV.") && !strings.HasPrefix(p, "ML.") && !strings.HasPrefix(p, "G.") && !strings.HasPrefix(p, "C.") {
		tn, fn := p[:i], p[i+1:]
		t := e.ld.typeOf(tn)
		if t == nil || structOf(t) == nil {
			e.errf("bad struct type in region pattern %q", p)
			return nil
		}
		var out []string
		var walk func(t types.Type)
		walk = func(t types.Type) {
			s := structOf(t)
			for i := 0; i < s.NumFields(); i++ {
				f := s.Field(i)
				if fn != "*" && f.Name() != fn {
					continue
				}
				if isStructValue(f.Type()) {
					if fn == "*" || f.Name() == fn {
						sub := structOf(f.Type())
						for j := 0; j < sub.NumFields(); j++ {
							if isStructValue(sub.Field(j).Type()) {
								continue
							}
							r, rs := e.fieldRegion(f.Type(), j)
							e.regInit(r, rs)
							out = append(out, r)
						}
					}
					continue
				}
				r, rs := e.fieldRegion(t, i)
				e.regInit(r, rs)
				out = append(out, r)
			}
		}
		walk(t)
		return out
	}
	return []string{p}
}

func (e *Eng) siteHit(s *SiteSpec) {
	if e.siteHits == nil {
		e.siteHits = map[*SiteSpec]int{}
	}
	e.siteHits[s]++
}

// siteEnv: names visible at a call site: parameters, captured and single-assignment locals, and the
// loop variables (phis, by source name) of the loops the site is in.
func (e *Eng) siteEnv(fr *Frame) *Env {
	env := e.funcEnv(fr)
	cur := fr.curBlock
	if cur == nil {
		return env
	}
	var doms []*ssa.BasicBlock
	for b := range fr.loopOrd {
		if b == cur || b.Dominates(cur) {
			doms = append(doms, b)
		}
	}
	sort.Slice(doms, func(i, j int) bool { return domDepth(doms[i]) < domDepth(doms[j]) })
	for _, b := range doms {
		var phis []*ssa.Phi
		own := false
		for _, ins := range b.Instrs {
			if p, ok := ins.(*ssa.Phi); ok {
				phis = append(phis, p)
				if p.Comment == "rangeindex" {
					own = true
				}
				if p.Comment != "" {
					if v, ok := fr.vals[p]; ok {
						env.vars[p.Comment] = v
						env.vars[strings.ReplaceAll(p.Comment, ".", "_")] = v
					}
				}
			}
		}
		if !own {
			// same alias as in loop invariants: rangeindex = (the loop's only unit counter from 0) - 1
			var cnt *ssa.Phi
			n := 0
			for _, p := range phis {
				if isUnitCounterFromZero(b, p) {
					cnt, n = p, n+1
				}
			}
			if n == 1 {
				if v, ok := fr.vals[cnt]; ok {
					env.vars["rangeindex"] = &Val{T: sx("-", v.T, "1"), Typ: types.Typ[types.Int], KnownLen: -1}
				}
			}
		}
	}
	return env
}

// relyStepAll: every atomic cell with a declared rely condition may have been changed by other goroutines.
func (e *Eng) relyStepAll(st *State) {
	for _, k := range sortedKeys(e.spec.Atomics) {
		as := e.spec.Atomics[k]
		i := strings.LastIndex(k, ".")
		if i < 0 {
			continue
		}
		t := e.ld.typeOf(k[:i])
		if t == nil || structOf(t) == nil {
			continue
		}
		s := structOf(t)
		for fi := 0; fi < s.NumFields(); fi++ {
			if s.Field(fi).Name() != k[i+1:] {
				continue
			}
			r, rs := e.fieldRegion(t, fi)
			before := e.get(st, r, rs)
			if as.Rely == "stable" {
				continue
			}
			e.havocReg(st, r)
			now := st.reg[r]
			var rel string
			switch as.Rely {
			case "nondecreasing":
				rel = fmt.Sprintf("(>= (select %s p) (select %s p))", now, before)
			case "monotone01":
				rel = fmt.Sprintf("(and (>= (select %s p) (select %s p)) (=> (and (<= 0 (select %s p)) (<= (select %s p) 1)) (<= (select %s p) 1)))", now, before, before, before, now)
			default:
				rel = "true"
			}
			e.sc.assume(fmt.Sprintf("(forall ((p Int)) (! %s :pattern ((select %s p))))", rel, now), "rely step for atomic "+k)
		}
	}
}

// siteLemmasAfter: `at call f: lemma-after L: e` is proved in the state right after the call (res = result) and assumed from there on.
func (e *Eng) siteLemmasAfter(fr0 *Frame, kind, name string, pos token.Pos, st *State, g string, res *Val) {
	fr, own := fr0.specFrame()
	if fr == nil {
		return
	}
	for _, s := range fr.fspec.Sites {
		if s.Kind != kind || s.Callee != name || !s.After || s.Later != "" {
			continue
		}
		if s.Ordinal != 0 && (!own || s.Ordinal != e.siteOrdinal(fr, kind, name)) {
			continue
		}
		env := e.siteEnv(fr)
		if res != nil {
			env.vars["res"] = res
		}
		t := e.evalClause(s.Clause, env, st, fr.oldFor(st), fr)
		e.siteHit(s)
		e.oblige("site-lemma", kind+":"+name+"/"+s.Clause.Label, s.Clause.Props, pos, g, t)
	}
}

// coverCall brackets a call whose contract is assumed with two reachability covers: if the point before the
// call is reachable and the point after it is not, the assumed postconditions contradict what is known there
// and everything downstream would be discharged vacuously.
func (e *Eng) coverCall(fr *Frame, key, g string, n int, on bool) int {
	if !on {
		return 0
	}
	if n == 0 {
		e.covSeq++
		n = e.covSeq
		e.cover(fmt.Sprintf("reach/%s@%d", key, n), e.safety(fr), g)
		return n
	}
	e.cover(fmt.Sprintf("after/%s@%d", key, n), e.safety(fr), g)
	return n
}

// siteOrdinal: `#k` in a site clause counts the sites of that kind and name in source order within the function.
func (e *Eng) siteOrdinal(fr *Frame, kind, name string) int {
	if fr.siteIns == nil {
		return 0
	}
	return e.ordinalOf(fr, fr.siteIns)
}

// ordinalOf: position of the instruction among the sites of its kind and name in the function, in source order.
func (e *Eng) ordinalOf(fr *Frame, at ssa.Instruction) int {
	if fr.siteOrds == nil {
		fr.siteOrds = map[ssa.Instruction]int{}
		groups := map[string][]ssa.Instruction{}
		for _, b := range fr.fn.Blocks {
			for _, ins := range b.Instrs {
				switch x := ins.(type) {
				case *ssa.Call:
					groups["call:"+calleeName(x.Common())] = append(groups["call:"+calleeName(x.Common())], ins)
				case *ssa.Defer:
					groups["call:"+calleeName(x.Common())] = append(groups["call:"+calleeName(x.Common())], ins)
				case *ssa.Go:
					groups["go:"+calleeName(x.Common())] = append(groups["go:"+calleeName(x.Common())], ins)
				case *ssa.MakeSlice:
					groups["make:"+descr(x.Len, 0)] = append(groups["make:"+descr(x.Len, 0)], ins)
				}
			}
		}
		for _, g := range groups {
			sort.SliceStable(g, func(i, j int) bool { return g[i].Pos() < g[j].Pos() })
			for i, ins := range g {
				fr.siteOrds[ins] = i + 1
			}
		}
	}
	return fr.siteOrds[at]
}

// preProps: a precondition without property tags is a safety obligation of the caller; one that is tagged
// belongs to those properties only (it is checked wherever the caller is in their scope).
func (e *Eng) preProps(fr *Frame, rq *Clause) []string {
	if len(rq.Props) > 0 {
		return rq.Props
	}
	return e.safety(fr)
}

// simulateLater: a closure handed to the callee here (a timer callback) runs at some later time, after every lock held
// now has been released and other goroutines have moved the protected state on (within the lock invariants and the
// rely conditions). Its body is executed once from such a state, with the values it really captured, under a fresh
// guard; the state it leaves is discarded. Its obligations (safety, lock invariants at its own releases, and the
// site clauses of the enclosing function, which follow the code into it) are checked there.
func (e *Eng) simulateLater(fr *Frame, clo *Closure, st *State, g string, pos token.Pos) {
	if len(e.inlineStack) >= e.maxInline+2 {
		return
	}
	st2 := st.clone()
	for _, key := range sortedKeys(st2.held) {
		ls := e.spec.Locks[key]
		base := st2.heldBase[key]
		delete(st2.held, key)
		if ls != nil && base != nil {
			e.havocProtected(st2, ls)
			e.assumeLockInvs(ls, base, st2, g)
		}
	}
	e.relyStepAll(st2)
	later := e.sc.havoc("later", "Bool")
	var args []*Val
	for _, p := range clo.Fn.Params {
		args = append(args, e.havocVal(st2, "later_"+p.Name(), p.Type()))
	}
	e.inlineStack = append(e.inlineStack, clo.Fn)
	e.sc.comment("callback run later: " + fnKey(clo.Fn))
	e.pendingUp = fr
	savedExit := e.atRootExit
	e.atRootExit = false
	e.execFunc(clo.Fn, args, clo.Bindings, st2, and(g, later), fr.depth+1, nil, e.namePrefix+"later:"+fnKey(clo.Fn)+"/")
	e.atRootExit = savedExit
	e.inlineStack = e.inlineStack[:len(e.inlineStack)-1]
	e.sc.comment("end callback " + fnKey(clo.Fn))
}
