package main

import (
	"context"
	"encoding/json"
	"fmt"
	"go/types"
	"os"
	"os/exec"
	"path/filepath"
	"strconv"
	"strings"
	"time"

	"golang.org/x/tools/go/ssa"
)

// Concrete refutation for functions over scalars.
//
// A failed postcondition of a package-level function whose parameters and results are all integers or booleans is
// looked for on the real code: the function is run (through `go test -overlay`, nothing is written to the repository)
// on a grid of boundary values, and for every run the contract is evaluated on the concrete inputs and the observed
// outputs by the solver. An input is reported only if `requires` holds for it and `requires && ensures` is
// unsatisfiable with the observed outputs plugged in, i.e. the real code produced a result the contract excludes.
// This is a search, not a proof: finding nothing says nothing (the VIOLATION line then ends no-failing-input-found).

type scalarSig struct {
	fn      *ssa.Function
	params  []types.Type
	results []types.Type
}

func scalarKind(t types.Type) (string, bool) {
	b, ok := types.Unalias(t).Underlying().(*types.Basic)
	if !ok {
		return "", false
	}
	switch {
	case b.Info()&types.IsBoolean != 0:
		return "bool", true
	case b.Info()&types.IsUnsigned != 0:
		return "uint", true
	case b.Info()&types.IsInteger != 0:
		return "int", true
	}
	return "", false
}

func scalarSignature(fn *ssa.Function) *scalarSig {
	if fn == nil || fn.Signature.Recv() != nil || len(fn.FreeVars) > 0 || fn.Parent() != nil {
		return nil
	}
	s := &scalarSig{fn: fn}
	for i := 0; i < fn.Signature.Params().Len(); i++ {
		t := fn.Signature.Params().At(i).Type()
		if _, ok := scalarKind(t); !ok {
			return nil
		}
		s.params = append(s.params, t)
	}
	for i := 0; i < fn.Signature.Results().Len(); i++ {
		t := fn.Signature.Results().At(i).Type()
		if _, ok := scalarKind(t); !ok {
			return nil
		}
		s.results = append(s.results, t)
	}
	if len(s.params) == 0 || len(s.results) == 0 {
		return nil
	}
	return s
}

func gridFor(t types.Type) []string {
	k, _ := scalarKind(t)
	switch k {
	case "bool":
		return []string{"false", "true"}
	case "uint":
		b := types.Unalias(t).Underlying().(*types.Basic)
		vals := []string{"0", "1", "2", "3", "15", "16", "17", "31", "32", "33", "48", "64", "100", "255"}
		if b.Kind() != types.Uint8 {
			vals = append(vals, "256", "1000", "65535", "65536")
		}
		return vals
	}
	b := types.Unalias(t).Underlying().(*types.Basic)
	vals := []string{"-1", "0", "1", "2", "3", "4", "7", "15", "16", "17", "31", "32", "33", "48", "64", "100", "255", "256", "1000", "65536"}
	if b.Kind() == types.Int64 || b.Kind() == types.Int {
		// durations and sizes
		vals = append(vals, "1000000", "500000000", "1000000000", "6000000000", "30000000000")
	}
	return vals
}

type scalarCase struct {
	In  []string
	Out []string
}

// runScalarCases runs fn on the given inputs in the real package and returns the observed outputs.
func runScalarCases(opt *Options, sig *scalarSig, inputs [][]string) ([]scalarCase, error) {
	qual := func(p *types.Package) string {
		if p == nil || p.Path() == sig.fn.Pkg.Pkg.Path() {
			return ""
		}
		return p.Name()
	}
	imports := map[string]bool{"fmt": true, "testing": true}
	tname := func(t types.Type) string {
		if n, ok := types.Unalias(t).(*types.Named); ok && n.Obj().Pkg() != nil && n.Obj().Pkg().Path() != sig.fn.Pkg.Pkg.Path() {
			imports[n.Obj().Pkg().Path()] = true
		}
		return types.TypeString(t, qual)
	}
	var b strings.Builder
	var body strings.Builder
	body.WriteString("func TestGvcScalarProbe(t *testing.T) {\n\tcases := [][]string{\n")
	for _, in := range inputs {
		body.WriteString("\t\t{")
		for i, v := range in {
			if i > 0 {
				body.WriteString(", ")
			}
			body.WriteString(strconv.Quote(v))
		}
		body.WriteString("},\n")
	}
	body.WriteString("\t}\n\t_ = cases\n")
	// the calls are generated literally, one per case, so that constants are typed by the compiler
	for ci, in := range inputs {
		var args []string
		for i, v := range in {
			k, _ := scalarKind(sig.params[i])
			if k == "bool" {
				args = append(args, v)
			} else {
				args = append(args, fmt.Sprintf("%s(%s)", tname(sig.params[i]), v))
			}
		}
		var outs, fmts, conv []string
		for i, rt := range sig.results {
			outs = append(outs, fmt.Sprintf("r%d", i))
			k, _ := scalarKind(rt)
			switch k {
			case "bool":
				fmts = append(fmts, "%v")
				conv = append(conv, fmt.Sprintf("r%d", i))
			case "uint":
				fmts = append(fmts, "%d")
				conv = append(conv, fmt.Sprintf("uint64(r%d)", i))
			default:
				fmts = append(fmts, "%d")
				conv = append(conv, fmt.Sprintf("int64(r%d)", i))
			}
		}
		fmt.Fprintf(&body, "\tfunc() {\n\t\tdefer func() {\n\t\t\tif r := recover(); r != nil {\n\t\t\t\tfmt.Printf(\"GVC-CASE %d PANIC\\n\")\n\t\t\t}\n\t\t}()\n\t\t%s := %s(%s)\n\t\tfmt.Printf(\"GVC-CASE %d %s\\n\", %s)\n\t}()\n",
			ci, strings.Join(outs, ", "), sig.fn.Name(), strings.Join(args, ", "), ci, strings.Join(fmts, " "), strings.Join(conv, ", "))
	}
	body.WriteString("}\n")
	b.WriteString("package " + sig.fn.Pkg.Pkg.Name() + "\n\nimport (\n")
	for _, im := range sortedKeys(imports) {
		fmt.Fprintf(&b, "\t%q\n", im)
	}
	b.WriteString(")\n\n")
	b.WriteString(body.String())
	tmp, err := os.MkdirTemp("", "gvc-probe-")
	if err != nil {
		return nil, err
	}
	defer os.RemoveAll(tmp)
	testFile := filepath.Join(tmp, "probe_test.go")
	os.WriteFile(testFile, []byte(b.String()), 0o644)
	ov := filepath.Join(tmp, "ov.json")
	ovData, _ := json.Marshal(map[string]interface{}{"Replace": map[string]string{filepath.Join(opt.repo, "zz_gvc_probe_test.go"): testFile}})
	os.WriteFile(ov, ovData, 0o644)
	ctx, cancel := context.WithTimeout(context.Background(), 180*time.Second)
	defer cancel()
	cmd := exec.CommandContext(ctx, "go", "test", "-overlay", ov, "-v", "-vet=off", "-count=1", "-timeout", "120s", "-run", "^TestGvcScalarProbe$", ".")
	cmd.Dir = opt.repo
	cmd.Env = append(os.Environ(), "PATH=/opt/veriftools/go1.26.8/bin:"+os.Getenv("PATH"), "GOFLAGS=-mod=mod", "GOPROXY=off", "GOSUMDB=off", "GOTOOLCHAIN=local")
	out, _ := cmd.CombinedOutput()
	var res []scalarCase
	for _, l := range strings.Split(string(out), "\n") {
		if !strings.HasPrefix(l, "GVC-CASE ") {
			continue
		}
		f := strings.Fields(l)
		if len(f) < 3 {
			continue
		}
		ci, err := strconv.Atoi(f[1])
		if err != nil || ci < 0 || ci >= len(inputs) || f[2] == "PANIC" {
			continue
		}
		res = append(res, scalarCase{In: inputs[ci], Out: f[2:]})
	}
	if len(res) == 0 {
		return nil, fmt.Errorf("probe produced no cases: %s", firstLines(string(out), 6))
	}
	return res, nil
}

func firstLines(s string, n int) string {
	ls := strings.Split(s, "\n")
	if len(ls) > n {
		ls = ls[:n]
	}
	return strings.Join(ls, " | ")
}

func smtLit(v string, t types.Type) string {
	k, _ := scalarKind(t)
	if k == "bool" {
		return v
	}
	if strings.HasPrefix(v, "-") {
		return "(- " + v[1:] + ")"
	}
	return v
}

// refutedOn: ids of the cases on which the real code's outputs contradict the clause (requires holds, requires && ensures unsat).
func refutedOn(ld *Loaded, sf *SpecFile, sig *scalarSig, fs *FuncSpec, clause *Clause, cases []scalarCase, dir string) []int {
	e := NewEng(ld, sf)
	e.sc.prelude.WriteString(goDivPrelude)
	e.rootFn = sig.fn
	st := &State{reg: map[string]string{}, held: map[string]string{}}
	e.get(st, frRegion, "Int")
	var body strings.Builder
	for ci, c := range cases {
		env := e.newEnv()
		for i, p := range sig.fn.Params {
			v := &Val{T: smtLit(c.In[i], sig.params[i]), Typ: sig.params[i], KnownLen: -1}
			env.vars[p.Name()] = v
			if i < len(fs.ParamNames) {
				env.vars[fs.ParamNames[i]] = v
			}
		}
		var rs []*Val
		for i, rt := range sig.results {
			if i < len(c.Out) {
				rs = append(rs, &Val{T: smtLit(c.Out[i], rt), Typ: rt, KnownLen: -1})
			}
		}
		env.result = rs
		var reqs []string
		for _, rq := range fs.Requires {
			reqs = append(reqs, e.evalClauseEnv(rq, env, st, st))
		}
		ens := e.evalClauseEnv(clause, env, st, st)
		if len(e.errs) > 0 {
			return nil
		}
		req := and(reqs...)
		fmt.Fprintf(&body, "(echo \"@@CASE %d\")\n(push 1)\n(assert %s)\n(check-sat)\n(assert %s)\n(check-sat)\n(pop 1)\n", ci, req, ens)
	}
	// concrete values only: the quantified axioms of the prelude (heap well-formedness, sequences) play no role and
	// would only make the solver answer unknown
	var sctx strings.Builder
	for _, l := range strings.Split(e.sc.prelude.String()+e.sc.body.String(), "\n") {
		if strings.HasPrefix(l, "(assert ") && strings.Contains(l, "(forall ") {
			continue
		}
		sctx.WriteString(l + "\n")
	}
	script := sctx.String() + body.String()
	os.MkdirAll(dir, 0o755)
	file := filepath.Join(dir, "ground.smt2")
	os.WriteFile(file, []byte(script), 0o644)
	if os.Getenv("GVC_KEEP_GROUND") == "" {
		defer os.Remove(file)
	}
	ctx, cancel := context.WithTimeout(context.Background(), 120*time.Second)
	defer cancel()
	out, _ := exec.CommandContext(ctx, "z3-new", "-t:2000", file).CombinedOutput()
	var hits []int
	cur, answers := -1, []string{}
	flush := func() {
		if cur >= 0 && len(answers) == 2 && answers[0] == "sat" && answers[1] == "unsat" {
			hits = append(hits, cur)
		}
	}
	for _, l := range strings.Split(string(out), "\n") {
		l = strings.TrimSpace(l)
		if strings.HasPrefix(l, "@@CASE ") {
			flush()
			cur, _ = strconv.Atoi(strings.TrimPrefix(l, "@@CASE "))
			answers = nil
		} else if l == "sat" || l == "unsat" || l == "unknown" {
			answers = append(answers, l)
		}
	}
	flush()
	return hits
}

// scalarReplay: the search described at the top of this file. On success the replay record gets the failing input.
func scalarReplay(opt *Options, ld *Loaded, sf *SpecFile, o *Obl, rep map[string]interface{}) bool {
	i := strings.Index(o.Name, "/post/")
	if i < 0 || o.Kind != "post" {
		return false
	}
	key, label := o.Name[:i], o.Name[i+len("/post/"):]
	fn := ld.funcs[key]
	fs := sf.Funcs[key]
	sig := scalarSignature(fn)
	if sig == nil || fs == nil {
		return false
	}
	var clause *Clause
	for _, en := range fs.Ensures {
		if en.Label == label {
			clause = en
		}
	}
	if clause == nil {
		return false
	}
	// grid, trimmed to at most ~6000 combinations
	grids := make([][]string, len(sig.params))
	total := 1
	for i, t := range sig.params {
		grids[i] = gridFor(t)
		total *= len(grids[i])
	}
	for total > 6000 {
		// shorten the longest grid
		li := 0
		for i := range grids {
			if len(grids[i]) > len(grids[li]) {
				li = i
			}
		}
		total = total / len(grids[li]) * (len(grids[li]) - 1)
		grids[li] = grids[li][:len(grids[li])-1]
	}
	var inputs [][]string
	var rec func(i int, cur []string)
	rec = func(i int, cur []string) {
		if i == len(grids) {
			inputs = append(inputs, append([]string(nil), cur...))
			return
		}
		for _, v := range grids[i] {
			rec(i+1, append(cur, v))
		}
	}
	rec(0, nil)
	cases, err := runScalarCases(opt, sig, inputs)
	if err != nil {
		rep["replay_search"] = "scalar grid search could not run: " + err.Error()
		return false
	}
	hits := refutedOn(ld, sf, sig, fs, clause, cases, filepath.Join(os.TempDir(), fmt.Sprintf("gvc-ground-%d", os.Getpid())))
	rep["replay_search"] = fmt.Sprintf("scalar grid search: %d inputs run on the real code, %d contradict the clause", len(cases), len(hits))
	if len(hits) == 0 {
		return false
	}
	c := cases[hits[0]]
	names := []string{}
	for _, p := range fn.Params {
		names = append(names, p.Name())
	}
	rep["replay_kind"] = "scalar"
	rep["replay_func"] = key
	rep["replay_clause"] = label
	rep["inputs"] = map[string]interface{}{"params": names, "values": c.In}
	rep["observed"] = c.Out
	rep["replay_note"] = fmt.Sprintf("%s(%s) returned %s on the real code; the clause `%s` excludes that result (checked by evaluating requires and ensures on these concrete values)", fn.Name(), strings.Join(c.In, ", "), strings.Join(c.Out, ", "), strings.TrimSpace(clause.Raw))
	return true
}

// replayScalar re-runs a recorded scalar counterexample against the current code.
func replayScalar(opt *Options, rep map[string]interface{}) int {
	ld, err := Load(opt.repo)
	if err != nil {
		fmt.Println("ERROR:", err)
		return 2
	}
	sf, err := ParseSpecFile(filepath.Join(opt.repo, "verif_contracts.go"))
	if err != nil {
		fmt.Println("ERROR:", err)
		return 2
	}
	key, _ := rep["replay_func"].(string)
	label, _ := rep["replay_clause"].(string)
	fn := ld.funcs[key]
	fs := sf.Funcs[key]
	sig := scalarSignature(fn)
	if sig == nil || fs == nil {
		fmt.Println("replay: the function is gone or no longer scalar")
		return 2
	}
	var clause *Clause
	for _, en := range fs.Ensures {
		if en.Label == label {
			clause = en
		}
	}
	in, _ := rep["inputs"].(map[string]interface{})
	var vals []string
	if in != nil {
		if vs, ok := in["values"].([]interface{}); ok {
			for _, v := range vs {
				vals = append(vals, fmt.Sprint(v))
			}
		}
	}
	if clause == nil || len(vals) != len(sig.params) {
		fmt.Println("replay: the recorded clause or inputs do not fit the current contract")
		return 2
	}
	cases, err := runScalarCases(opt, sig, [][]string{vals})
	if err != nil {
		fmt.Println("replay:", err)
		return 2
	}
	fmt.Printf("%s(%s) = %s on the code in %s\n", fn.Name(), strings.Join(vals, ", "), strings.Join(cases[0].Out, ", "), opt.repo)
	hits := refutedOn(ld, sf, sig, fs, clause, cases, filepath.Join(os.TempDir(), fmt.Sprintf("gvc-ground-%d", os.Getpid())))
	if len(hits) > 0 {
		fmt.Printf("replay: this result contradicts the clause `%s`: the real code violates the property on this input\n", strings.TrimSpace(clause.Raw))
		return 1
	}
	fmt.Println("replay: the real code satisfies the clause on this input (any more)")
	return 0
}
