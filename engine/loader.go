package main

import (
	"sync"
	"fmt"
	"go/token"
	"go/types"
	"os"
	"strings"

	"golang.org/x/tools/go/packages"
	"golang.org/x/tools/go/ssa"
	"golang.org/x/tools/go/ssa/ssautil"
)

type Loaded struct {
	fset   *token.FileSet
	pkg    *packages.Package
	prog   *ssa.Program
	ssaPkg *ssa.Package
	funcs  map[string]*ssa.Function
	tcache map[string]types.Type
	allFuncs map[*ssa.Function]bool
	mu sync.Mutex
}

const goRoot = "/opt/veriftools/go1.26.8"

func setupGoEnv() {
	os.Setenv("PATH", goRoot+"/bin:"+os.Getenv("PATH"))
	os.Setenv("GOFLAGS", "-mod=mod")
	os.Setenv("GOPROXY", "off")
	os.Setenv("GOSUMDB", "off")
	os.Setenv("GOTOOLCHAIN", "local")
}

func Load(dir string) (*Loaded, error) {
	setupGoEnv()
	cfg := &packages.Config{Mode: packages.LoadAllSyntax, Dir: dir, BuildFlags: []string{"-tags=verif"}}
	pkgs, err := packages.Load(cfg, ".")
	if err != nil {
		return nil, err
	}
	if len(pkgs) != 1 {
		return nil, fmt.Errorf("expected one package, got %d", len(pkgs))
	}
	if len(pkgs[0].Errors) > 0 {
		return nil, fmt.Errorf("package does not build: %v", pkgs[0].Errors[0])
	}
	prog, spkgs := ssautil.AllPackages(pkgs, ssa.InstantiateGenerics|ssa.GlobalDebug)
	prog.Build()
	ld := &Loaded{fset: pkgs[0].Fset, pkg: pkgs[0], prog: prog, ssaPkg: spkgs[0], funcs: map[string]*ssa.Function{}, tcache: map[string]types.Type{}}
	ld.allFuncs = ssautil.AllFunctions(prog)
	for fn := range ld.allFuncs {
		if fn.Pkg == spkgs[0] || (fn.Parent() != nil && rootParent(fn).Pkg == spkgs[0]) {
			ld.funcs[fnKey(fn)] = fn
		}
	}
	return ld, nil
}

func rootParent(fn *ssa.Function) *ssa.Function {
	for fn.Parent() != nil {
		fn = fn.Parent()
	}
	return fn
}

func (ld *Loaded) typeOf(expr string) types.Type {
	ld.mu.Lock()
	defer ld.mu.Unlock()
	expr = strings.TrimSpace(expr)
	if t, ok := ld.tcache[expr]; ok {
		return t
	}
	tv, err := types.Eval(ld.fset, ld.pkg.Types, token.NoPos, expr)
	if err != nil || !tv.IsType() {
		// qualified names of imported packages (e.g. net.IP): look through imports
		if i := strings.Index(expr, "."); i > 0 {
			prefix := ""
			rest := expr
			for strings.HasPrefix(rest, "*") || strings.HasPrefix(rest, "[]") {
				if rest[0] == '*' {
					prefix += "*"
					rest = rest[1:]
				} else {
					prefix += "[]"
					rest = rest[2:]
				}
			}
			if j := strings.Index(rest, "."); j > 0 {
				for _, imp := range ld.pkg.Types.Imports() {
					if imp.Name() == rest[:j] {
						if obj := imp.Scope().Lookup(rest[j+1:]); obj != nil {
							t := obj.Type()
							for k := len(prefix); k > 0; {
								if strings.HasSuffix(prefix[:k], "[]") {
									t = types.NewSlice(t)
									k -= 2
								} else {
									t = types.NewPointer(t)
									k--
								}
							}
							ld.tcache[expr] = t
							return t
						}
					}
				}
			}
		}
		ld.tcache[expr] = nil
		return nil
	}
	ld.tcache[expr] = tv.Type
	return tv.Type
}
