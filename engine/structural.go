package main

// Structural obligations: whole-package SSA scans that are not SMT queries
// (write-site frames, lock discipline). Filled in per property.

type StructObl struct {
	Name   string
	OK     bool
	Detail string
}

func runStructural(ld *Loaded, sf *SpecFile, prop string) []StructObl {
	return nil
}

// tryReplay attempts to run the solver's counterexample against the real code.
// Returns true if a failing input was demonstrated on the real code.
func tryReplay(opt *Options, ld *Loaded, sf *SpecFile, o *Obl, rep map[string]interface{}) bool {
	return false
}
