package main

import (
	"context"
	"path/filepath"
	"time"
	"encoding/json"
	"fmt"
	"os"
	"os/exec"
	"strings"

	"golang.org/x/tools/go/ssa"
)

// Structural obligations: whole-package SSA scans that are not SMT queries
// (write-site frames, lock discipline). Filled in per property.

type StructObl struct {
	Name   string
	OK     bool
	Detail string
}

func runStructural(ld *Loaded, sf *SpecFile, prop string) []StructObl {
	out := retainObligations(ld, sf, prop)
	return append(out, runStructuralProp(ld, sf, prop)...)
}

var structTier, structVerifDir string

// leanLemma: a lemma about the contracts themselves (not about code) that the SMT solvers are the wrong tool for,
// checked by Lean 4 + Mathlib (thorough tier only: loading Mathlib takes about a minute).
func leanLemma(name, file, what string) []StructObl {
	if structTier != "thorough" {
		return nil
	}
	ctx, cancel := context.WithTimeout(context.Background(), 15*time.Minute)
	defer cancel()
	out, err := exec.CommandContext(ctx, "lean", filepath.Join(structVerifDir, "lemmas", file)).CombinedOutput()
	ok := err == nil && !strings.Contains(string(out), "error") && !strings.Contains(string(out), "sorry")
	det := what + " (lean " + file + ": accepted, no sorry)"
	if !ok {
		det = what + ": lean did not accept " + file + ": " + trunc(string(out), 300)
	}
	return []StructObl{{Name: name, OK: ok, Detail: det}}
}

func runStructuralProp(ld *Loaded, sf *SpecFile, prop string) []StructObl {
	switch prop {
	case "C07":
		return leanLemma("C07/meta/M2-list-enumerates-map", "M2.lean", "from N2, N3, N4: every record of the node map sits in some slot of the member list (pigeonhole), so Members() walks every record")
	case "C15":
		return writeSiteFrame(ld)
	case "C13":
		return listPushSites(ld)
	case "C20":
		return lockDiscipline(ld, sf)
	}
	return nil
}

// writeSiteFrame (C15, family 1): every call that hands bytes to the transport or to a stream connection sits in
// one of the functions whose contracts pin down what is written there. A new write site anywhere else is a failed obligation.
func writeSiteFrame(ld *Loaded) []StructObl {
	allowed := map[string]string{
		"(*Memberlist).rawSendMsgPacket":             "packet path: contract ciphertext-only",
		"(*Memberlist).rawSendMsgStream":             "stream path: contract ciphertext-only",
		"AddLabelHeaderToStream":                     "cleartext label header only (contract header-bytes)",
		"(*labelWrappedTransport).WriteToAddress":    "adds the cleartext label header around what it is given",
		"(*labelWrappedTransport).WriteTo":           "adds the cleartext label header around what it is given",
		"(*shimNodeAwareTransport).WriteToAddress":   "forwards unchanged",
		"(*NetTransport).WriteTo":                    "concrete transport",
		"(*NetTransport).WriteToAddress":             "concrete transport",
		"(*MockTransport).WriteTo":                   "concrete test transport",
		"(*MockTransport).WriteToAddress":            "concrete test transport",
	}
	var out []StructObl
	seen := map[string]bool{}
	for _, k := range sortedKeys(ld.funcs) {
		fn := ld.funcs[k]
		if fn.Synthetic != "" {
			continue
		}
		for _, b := range fn.Blocks {
			for _, ins := range b.Instrs {
				var c *ssa.CallCommon
				switch x := ins.(type) {
				case *ssa.Call:
					c = x.Common()
				case *ssa.Go:
					c = x.Common()
				case *ssa.Defer:
					c = x.Common()
				}
				if c == nil {
					continue
				}
				name := ""
				if c.IsInvoke() {
					mn := c.Method.Name()
					in := ifaceName(c.Value.Type())
					if (mn == "WriteTo" || mn == "WriteToAddress") && (in == "Transport" || in == "NodeAwareTransport") {
						name = in + "." + mn
					}
					if mn == "Write" && (in == "net.Conn") {
						name = in + "." + mn
					}
				} else if f := c.StaticCallee(); f != nil {
					fk := f.String()
					if strings.HasSuffix(fk, "net.UDPConn).WriteTo") || strings.HasSuffix(fk, "net.TCPConn).Write") || strings.HasSuffix(fk, "net.UDPConn).Write") {
						name = fk
					}
				}
				if name == "" {
					continue
				}
				root := fnKey(rootParent(fn))
				key := "C15/write-site/" + fnKey(fn) + "/" + name
				if seen[key] {
					continue
				}
				seen[key] = true
				why, ok := allowed[fnKey(fn)]
				if !ok {
					why, ok = allowed[root]
				}
				det := "call of " + name + " in " + fnKey(fn)
				if ok {
					det += ": " + why
				} else {
					det += ": NOT one of the functions whose contract fixes what is written to the network"
				}
				out = append(out, StructObl{Name: key, OK: ok, Detail: det})
			}
		}
	}
	return out
}

// listPushSites (C13): the axiom "every hand-off queue element is a msgHandoff" rests on the only insertion site.
func listPushSites(ld *Loaded) []StructObl {
	var out []StructObl
	for _, k := range sortedKeys(ld.funcs) {
		fn := ld.funcs[k]
		for _, b := range fn.Blocks {
			for _, ins := range b.Instrs {
				call, ok := ins.(*ssa.Call)
				if !ok || call.Common().IsInvoke() {
					continue
				}
				f := call.Common().StaticCallee()
				if f == nil || !strings.Contains(f.String(), "container/list.List).Push") && !strings.Contains(f.String(), "container/list.List).Insert") {
					continue
				}
				okT := false
				if mi, isMI := call.Common().Args[len(call.Common().Args)-1].(*ssa.MakeInterface); isMI {
					okT = strings.HasSuffix(mi.X.Type().String(), "memberlist.msgHandoff")
				}
				out = append(out, StructObl{Name: "C13/list-insert/" + fnKey(fn), OK: okT, Detail: "insertion into a container/list in " + fnKey(fn) + " (axiom listvals: every element is a msgHandoff)"})
			}
		}
	}
	return out
}

// tryReplay attempts to run the solver's counterexample against the real code.
// Returns true if a failing input was demonstrated on the real code.
func tryReplay(opt *Options, ld *Loaded, sf *SpecFile, o *Obl, rep map[string]interface{}) bool {
	defer func() { recover() }()
	// functions over scalars: search the real code for an input that contradicts the failed clause (replay_scalar.go)
	return scalarReplay(opt, ld, sf, o, rep)
}

// replayFile re-runs a recorded violation: prints the failed obligation with the solver's
// output and, when a replay test is attached, runs it against the real code.
func replayFile(opt *Options, path string) int {
	data, err := os.ReadFile(path)
	if err != nil {
		fmt.Println("ERROR:", err)
		return 2
	}
	var rep map[string]interface{}
	if err := json.Unmarshal(data, &rep); err != nil {
		fmt.Println("ERROR:", err)
		return 2
	}
	fmt.Printf("property:   %v\nobligation: %v\nat:         %v\nresult:     %v (%v)\n", rep["property"], rep["obligation"], rep["at"], rep["result"], rep["solver"])
	if m, ok := rep["model"].(string); ok && m != "" {
		fmt.Printf("solver model (restricted):\n%s\n", m)
	}
	if in, ok := rep["inputs"]; ok {
		b, _ := json.MarshalIndent(in, "", " ")
		fmt.Printf("inputs extracted from the model:\n%s\n", b)
	}
	if k, _ := rep["replay_kind"].(string); k == "scalar" {
		fmt.Printf("recorded failing input: %v (observed %v)\n%v\n", rep["inputs"], rep["observed"], rep["replay_note"])
		return replayScalar(opt, rep)
	}
	tf, _ := rep["replay_test"].(string)
	tn, _ := rep["replay_test_name"].(string)
	if tf == "" {
		fmt.Println("no-failing-input-found: no executable replay attached; the obligation and the solver output above are the evidence")
		return 1
	}
	cmd := exec.Command(opt.verifDir+"/tools/replay.sh", tf, tn, opt.repo)
	out, err := cmd.CombinedOutput()
	fmt.Print(string(out))
	if err != nil {
		fmt.Println("replay: the real code violates the property on this input")
		return 1
	}
	fmt.Println("replay: the real code does not fail on this input (any more)")
	return 0
}

// retainObligations: `retains p` in a function's contract says that the function keeps the object p points to after it
// returns (a timer callback reads it later). Obligation at every call site in the package: the argument is an object
// allocated by the caller, and on no path from the call does the caller write it again or hand it to another call
// before allocating a new one. (This is what lets the deferred-callback rule read the captured object as it was at the call.)
func retainObligations(ld *Loaded, sf *SpecFile, prop string) []StructObl {
	var out []StructObl
	for _, fk := range sortedKeys(sf.Funcs) {
		fs := sf.Funcs[fk]
		for _, rt := range fs.Retains {
			tagged := false
			for _, p := range rt.Props {
				if p == prop {
					tagged = true
				}
			}
			if !tagged {
				continue
			}
			callee := ld.funcs[fk]
			if callee == nil {
				out = append(out, StructObl{Name: prop + "/retains/" + fk + "(" + rt.Param + ")", OK: false, Detail: "function not found"})
				continue
			}
			idx := -1
			for i, p := range callee.Params {
				if p.Name() == rt.Param || (i < len(fs.ParamNames) && fs.ParamNames[i] == rt.Param) {
					idx = i
				}
			}
			if idx < 0 {
				out = append(out, StructObl{Name: prop + "/retains/" + fk + "(" + rt.Param + ")", OK: false, Detail: "no such parameter"})
				continue
			}
			for _, ck := range sortedKeys(ld.funcs) {
				caller := ld.funcs[ck]
				sites := 0
				for _, b := range caller.Blocks {
					for i, ins := range b.Instrs {
						var c *ssa.CallCommon
						switch x := ins.(type) {
						case *ssa.Call:
							c = x.Common()
						case *ssa.Go:
							c = x.Common()
						case *ssa.Defer:
							c = x.Common()
						}
						if c == nil || c.StaticCallee() != callee || idx >= len(c.Args) {
							continue
						}
						sites++
						name := fmt.Sprintf("%s/retains/%s/%s(%s)", prop, ck, fk, rt.Param)
						if sites > 1 {
							name += fmt.Sprintf("#%d", sites)
						}
						ok, det := retainedArgUntouched(caller, b, i, c.Args[idx])
						ps := ld.fset.Position(ins.Pos())
						out = append(out, StructObl{Name: name, OK: ok, Detail: fmt.Sprintf("%s hands %s to %s at %s:%d, which keeps it: %s", ck, rt.Param, fk, shortFile(ps.Filename), ps.Line, det)})
					}
				}
			}
		}
	}
	return out
}

func rootedAt(v ssa.Value, al *ssa.Alloc) bool {
	for {
		switch x := v.(type) {
		case *ssa.Alloc:
			return x == al
		case *ssa.FieldAddr:
			v = x.X
		case *ssa.IndexAddr:
			v = x.X
		case *ssa.ChangeType:
			v = x.X
		case *ssa.MakeInterface:
			v = x.X
		default:
			return false
		}
	}
}

// retainedArgUntouched: from the call at b.Instrs[at] no write to (or further hand-off of) the object is reachable
// without first passing through its allocation.
func retainedArgUntouched(fn *ssa.Function, b *ssa.BasicBlock, at int, arg ssa.Value) (bool, string) {
	al, ok := arg.(*ssa.Alloc)
	if !ok {
		return false, "the argument is not an object allocated by the caller (" + arg.String() + "); the caller's own contract would have to pass the obligation on"
	}
	touches := func(ins ssa.Instruction) string {
		switch x := ins.(type) {
		case *ssa.Store:
			if rootedAt(x.Addr, al) {
				return "a later store into it"
			}
		case *ssa.Call, *ssa.Go, *ssa.Defer:
			c := x.(ssa.CallInstruction).Common()
			for _, a := range c.Args {
				if rootedAt(a, al) {
					return "a later call that is handed the same object (" + calleeName(c) + ")"
				}
			}
		}
		return ""
	}
	seen := map[*ssa.BasicBlock]bool{}
	var walk func(blk *ssa.BasicBlock, from int) string
	walk = func(blk *ssa.BasicBlock, from int) string {
		for i := from; i < len(blk.Instrs); i++ {
			if blk.Instrs[i] == ssa.Instruction(al) {
				return "" // a new object from here on
			}
			if why := touches(blk.Instrs[i]); why != "" {
				ps := fn.Prog.Fset.Position(blk.Instrs[i].Pos())
				return fmt.Sprintf("%s at line %d", why, ps.Line)
			}
		}
		for _, s := range blk.Succs {
			if seen[s] {
				continue
			}
			seen[s] = true
			if why := walk(s, 0); why != "" {
				return why
			}
		}
		return ""
	}
	if why := walk(b, at+1); why != "" {
		return false, "but " + why + " is reachable from the call without a new allocation"
	}
	return true, "the object is allocated by the caller and not written or handed on again after the call"
}
