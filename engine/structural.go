package main

import (
	"encoding/json"
	"fmt"
	"os"
	"os/exec"
)

// Structural obligations: whole-package SSA scans that are not SMT queries
// (write-site frames, lock discipline). Filled in per property.

type StructObl struct {
	Name   string
	OK     bool
	Detail string
}

func runStructural(ld *Loaded, sf *SpecFile, prop string) []StructObl {
	return nil
}

// tryReplay attempts to run the solver's counterexample against the real code.
// Returns true if a failing input was demonstrated on the real code.
func tryReplay(opt *Options, ld *Loaded, sf *SpecFile, o *Obl, rep map[string]interface{}) bool {
	return false
}

// replayFile re-runs a recorded violation: prints the failed obligation with the solver's
// output and, when a replay test is attached, runs it against the real code.
func replayFile(opt *Options, path string) int {
	data, err := os.ReadFile(path)
	if err != nil {
		fmt.Println("ERROR:", err)
		return 2
	}
	var rep map[string]interface{}
	if err := json.Unmarshal(data, &rep); err != nil {
		fmt.Println("ERROR:", err)
		return 2
	}
	fmt.Printf("property:   %v\nobligation: %v\nat:         %v\nresult:     %v (%v)\n", rep["property"], rep["obligation"], rep["at"], rep["result"], rep["solver"])
	if m, ok := rep["model"].(string); ok && m != "" {
		fmt.Printf("solver model (restricted):\n%s\n", m)
	}
	if in, ok := rep["inputs"]; ok {
		b, _ := json.MarshalIndent(in, "", " ")
		fmt.Printf("inputs extracted from the model:\n%s\n", b)
	}
	tf, _ := rep["replay_test"].(string)
	tn, _ := rep["replay_test_name"].(string)
	if tf == "" {
		fmt.Println("no-failing-input-found: no executable replay attached; the obligation and the solver output above are the evidence")
		return 1
	}
	cmd := exec.Command(opt.verifDir+"/tools/replay.sh", tf, tn, opt.repo)
	out, err := cmd.CombinedOutput()
	fmt.Print(string(out))
	if err != nil {
		fmt.Println("replay: the real code violates the property on this input")
		return 1
	}
	fmt.Println("replay: the real code does not fail on this input (any more)")
	return 0
}
