package main

// Contracts file: Gobra-style `//@` lines in a comment-only Go file guarded by
// //go:build verif (DESIGN §2.3). This file holds the line-level parser and the
// expression parser.

import (
	"fmt"
	"os"
	"strconv"
	"strings"
	"unicode"
)

type Clause struct {
	Internal bool
	Label string
	Props []string
	Expr  Expr
	Raw   string
	Line  int
}

type SiteSpec struct {
	Kind    string // call | make | go
	Callee  string
	Ordinal int
	Clause  *Clause
	Hits    int
	Lemma    bool   // proved at the site and assumed afterwards
	Before   bool   // ghost set evaluated before the call executes
	After    bool   // lemma proved (and then assumed) right after the call, with res bound to its result
	Iter     bool   // invariant of a callback iteration performed by the callee (at call f: iter-invariant L: e)
	Later    string // `at call f: later p`: the closure passed as parameter p runs later, from a state other goroutines have moved on
	SetGhost string // `at call f: set $g := expr` (expr may mention res)
	SetExpr  Expr
}

type LetDef struct {
	Name string
	Expr Expr
}

type FuncSpec struct {
	Key              string
	ParamNames       []string
	Requires         []*Clause
	Ensures          []*Clause
	LoopInvs         map[int][]*Clause
	Monitor          string
	Assigns          []string
	Sites            []*SiteSpec
	Lets             []LetDef
	Safety           []string
	ArithChecked     bool
	ConvLossless     bool
	PanicsDocumented bool
	ByteContents     bool
	InlineOnly       bool
	Modular          bool
	Trusted          bool
	Discipline       bool
	DisciplineProps  []string
	Line             int
	Retains          []RetainSpec // parameters whose referent the function keeps after it returns
	LoopShapes       map[int][]*Clause // what the loop's invariants assume about the loop itself (counter start, ...): a failure means "contract out of step", not "violated"
}

type RetainSpec struct {
	Param string
	Props []string
}

type LockSpec struct {
	Key      string
	Recv     string
	Protects []string
	Invs     []*Clause
	Assumes  []*Clause // assumed whenever the lock is taken, never proved (listed as assumptions)
	Strict   bool
}

type IfaceSpec struct {
	Key          string
	ParamNames   []string
	Assigns      []string
	Requires     []*Clause
	Ensures      []*Clause
	RequiresHeld string
	HeldProps    []string
}

type Param struct {
	Name string
	Type string
}

type PureDef struct {
	Name   string
	Params []Param
	Ret    string
	Body   Expr
}

type CtorDef struct {
	Name   string
	Fields []Param
}

type DatatypeDef struct {
	Name  string
	Ctors []CtorDef
}

type AtomicSpec struct {
	Key  string // T.f
	Rely string // nondecreasing | monotone01 | any
}

type LemmaDef struct {
	Name    string
	Props   []string
	Vars    []Param
	Hyps    []Expr
	Concl   Expr
	Line    int
}

type SpecFile struct {
	Funcs     map[string]*FuncSpec
	Locks     map[string]*LockSpec
	Ifaces    map[string]*IfaceSpec
	Pures     map[string]*PureDef
	Ghosts    map[string]string // $name -> type
	GhostOrder []string
	Datatypes []*DatatypeDef
	Atomics   map[string]*AtomicSpec
	Lemmas    []*LemmaDef
	Axioms    []*Clause
	Path      string
	Keywords  map[string]int // scan: assume / trusted counts
	LockOrder [][2]string              // declared lock levels: pairs a < b
	LockWaits map[string]map[string]bool // lock -> operations a holder may block on
}

var itemKeywords = map[string]bool{"ghost": true, "datatype": true, "pure": true, "lock": true, "iface": true, "func": true, "atomic": true, "lemma": true, "axiom": true, "lockorder": true, "lockwaits": true}
var subKeywords = map[string]bool{"protects": true, "inv": true, "assigns": true, "held": true, "ensures": true, "ensures-internal": true, "requires": true, "safety": true,
	"monitor": true, "let": true, "loop": true, "at": true, "arith": true, "conv": true, "panics": true, "bytes": true, "inline": true, "modular": true,
	"discipline": true, "retains": true, "recv": true, "assume": true, "trusted": true, "strict": true, "forall": false, "hyp": true, "concl": true, "vars": true}

func ParseSpecFile(path string) (*SpecFile, error) {
	data, err := os.ReadFile(path)
	if err != nil {
		return nil, err
	}
	sf := &SpecFile{Funcs: map[string]*FuncSpec{}, Locks: map[string]*LockSpec{}, Ifaces: map[string]*IfaceSpec{}, Pures: map[string]*PureDef{},
		Ghosts: map[string]string{}, Atomics: map[string]*AtomicSpec{}, Path: path, Keywords: map[string]int{}}
	type ln struct {
		text string
		no   int
	}
	var lines []ln
	for i, l := range strings.Split(string(data), "\n") {
		t := strings.TrimSpace(l)
		if !strings.HasPrefix(t, "//@") {
			continue
		}
		t = strings.TrimPrefix(t, "//@")
		// strip trailing comment introduced by " //"
		if j := strings.Index(t, " // "); j >= 0 {
			t = t[:j]
		}
		if strings.TrimSpace(t) == "" {
			continue
		}
		lines = append(lines, ln{t, i + 1})
	}
	// join continuation lines
	var stmts []ln
	for _, l := range lines {
		w := firstWord(l.text)
		if itemKeywords[w] || subKeywords[w] {
			stmts = append(stmts, ln{strings.TrimSpace(l.text), l.no})
		} else if len(stmts) > 0 {
			stmts[len(stmts)-1].text += " " + strings.TrimSpace(l.text)
		} else {
			return nil, fmt.Errorf("%s:%d: continuation line without statement", path, l.no)
		}
	}
	var curFunc *FuncSpec
	var curLock *LockSpec
	var curIface *IfaceSpec
	var curLemma *LemmaDef
	reset := func() { curFunc, curLock, curIface, curLemma = nil, nil, nil, nil }
	for _, s := range stmts {
		w := firstWord(s.text)
		rest := strings.TrimSpace(s.text[len(w):])
		fail := func(format string, a ...interface{}) error {
			return fmt.Errorf("%s:%d: %s", path, s.no, fmt.Sprintf(format, a...))
		}
		switch w {
		case "lockorder":
			reset()
			parts := strings.Split(rest, "<")
			if len(parts) < 2 {
				return nil, fail("lockorder A < B [< C ...]")
			}
			for i := 0; i+1 < len(parts); i++ {
				sf.LockOrder = append(sf.LockOrder, [2]string{strings.TrimSpace(parts[i]), strings.TrimSpace(parts[i+1])})
			}
		case "lockwaits":
			reset()
			i := strings.Index(rest, ":")
			if i < 0 {
				return nil, fail("lockwaits <lock>: op; op; ...")
			}
			lk := strings.TrimSpace(rest[:i])
			if sf.LockWaits == nil {
				sf.LockWaits = map[string]map[string]bool{}
			}
			if sf.LockWaits[lk] == nil {
				sf.LockWaits[lk] = map[string]bool{}
			}
			for _, op := range strings.Split(rest[i+1:], ";") {
				if op = strings.TrimSpace(op); op != "" {
					sf.LockWaits[lk][op] = true
				}
			}
		case "ghost":
			reset()
			f := strings.Fields(rest)
			if len(f) != 2 {
				return nil, fail("ghost $name Type")
			}
			sf.Ghosts[f[0]] = f[1]
			sf.GhostOrder = append(sf.GhostOrder, f[0])
		case "datatype":
			reset()
			dt, err := parseDatatype(rest)
			if err != nil {
				return nil, fail("%v", err)
			}
			sf.Datatypes = append(sf.Datatypes, dt)
		case "pure":
			reset()
			pd, err := parsePure(rest)
			if err != nil {
				return nil, fail("%v", err)
			}
			sf.Pures[pd.Name] = pd
		case "atomic":
			reset()
			f := strings.Fields(rest)
			if len(f) != 3 || f[1] != "rely" {
				return nil, fail("atomic T.f rely <kind>")
			}
			sf.Atomics[f[0]] = &AtomicSpec{Key: f[0], Rely: f[2]}
		case "axiom":
			reset()
			c, err := parseClause(rest, s.no)
			if err != nil {
				return nil, fail("%v", err)
			}
			sf.Axioms = append(sf.Axioms, c)
			sf.Keywords["axiom"]++
		case "lemma":
			reset()
			name, props := splitLabelProps(rest)
			curLemma = &LemmaDef{Name: name, Props: props, Line: s.no}
			sf.Lemmas = append(sf.Lemmas, curLemma)
		case "vars":
			if curLemma == nil {
				return nil, fail("vars outside lemma")
			}
			ps, err := parseParams(rest)
			if err != nil {
				return nil, fail("%v", err)
			}
			curLemma.Vars = append(curLemma.Vars, ps...)
		case "hyp":
			if curLemma == nil {
				return nil, fail("hyp outside lemma")
			}
			ex, err := ParseExpr(rest)
			if err != nil {
				return nil, fail("%v", err)
			}
			curLemma.Hyps = append(curLemma.Hyps, ex)
		case "concl":
			if curLemma == nil {
				return nil, fail("concl outside lemma")
			}
			ex, err := ParseExpr(rest)
			if err != nil {
				return nil, fail("%v", err)
			}
			curLemma.Concl = ex
		case "lock":
			reset()
			f := strings.Fields(rest)
			curLock = &LockSpec{Key: f[0], Recv: "m"}
			for i := 1; i < len(f); i++ {
				if f[i] == "recv" && i+1 < len(f) {
					curLock.Recv = f[i+1]
					i++
				} else if f[i] == "strict" {
					curLock.Strict = true
				}
			}
			sf.Locks[curLock.Key] = curLock
		case "iface":
			reset()
			name, params, err := parseHeader(rest)
			if err != nil {
				return nil, fail("%v", err)
			}
			curIface = &IfaceSpec{Key: name, ParamNames: params}
			sf.Ifaces[name] = curIface
		case "func":
			reset()
			name, params, err := parseHeader(rest)
			if err != nil {
				return nil, fail("%v", err)
			}
			curFunc = &FuncSpec{Key: name, ParamNames: params, LoopInvs: map[int][]*Clause{}, Line: s.no}
			if _, dup := sf.Funcs[name]; dup {
				return nil, fail("duplicate func %s", name)
			}
			sf.Funcs[name] = curFunc
		case "protects":
			if curLock == nil {
				return nil, fail("protects outside lock")
			}
			for _, p := range strings.Split(rest, ",") {
				curLock.Protects = append(curLock.Protects, strings.TrimSpace(p))
			}
		case "assume":
			if curLock == nil {
				return nil, fail("assume outside lock")
			}
			c, err := parseClause(rest, s.no)
			if err != nil {
				return nil, fail("%v", err)
			}
			curLock.Assumes = append(curLock.Assumes, c)
			sf.Keywords["assume"]++
		case "inv":
			if curLock == nil {
				return nil, fail("inv outside lock")
			}
			c, err := parseClause(rest, s.no)
			if err != nil {
				return nil, fail("%v", err)
			}
			curLock.Invs = append(curLock.Invs, c)
		case "assigns":
			var list []string
			for _, p := range strings.Split(rest, ",") {
				if p = strings.TrimSpace(p); p != "" && p != "nothing" {
					list = append(list, p)
				}
			}
			if curFunc != nil {
				curFunc.Assigns = append(curFunc.Assigns, list...)
				if len(list) == 0 {
					curFunc.Assigns = append(curFunc.Assigns, "$nothing")
				}
			} else if curIface != nil {
				curIface.Assigns = append(curIface.Assigns, list...)
			} else {
				return nil, fail("assigns outside func/iface")
			}
		case "held":
			if curIface == nil {
				return nil, fail("held outside iface")
			}
			name, props := splitLabelProps(rest)
			curIface.RequiresHeld = name
			curIface.HeldProps = props
		case "requires", "ensures", "ensures-internal":
			c, err := parseClause(rest, s.no)
			if err != nil {
				return nil, fail("%v", err)
			}
			if w == "ensures-internal" {
				// proved for the function itself, not exported to callers (it may mention the function's locals)
				c.Internal = true
				w = "ensures"
			}
			switch {
			case curFunc != nil && w == "requires":
				curFunc.Requires = append(curFunc.Requires, c)
			case curFunc != nil:
				curFunc.Ensures = append(curFunc.Ensures, c)
			case curIface != nil && w == "requires":
				curIface.Requires = append(curIface.Requires, c)
			case curIface != nil:
				curIface.Ensures = append(curIface.Ensures, c)
			default:
				return nil, fail("%s outside func/iface", w)
			}
		case "safety":
			if curFunc == nil {
				return nil, fail("safety outside func")
			}
			_, props := splitLabelProps(rest)
			curFunc.Safety = props
		case "monitor":
			if curFunc == nil {
				return nil, fail("monitor outside func")
			}
			curFunc.Monitor = rest
		case "let":
			if curFunc == nil {
				return nil, fail("let outside func")
			}
			i := strings.Index(rest, ":=")
			if i < 0 {
				return nil, fail("let x := e")
			}
			ex, err := ParseExpr(rest[i+2:])
			if err != nil {
				return nil, fail("%v", err)
			}
			curFunc.Lets = append(curFunc.Lets, LetDef{strings.TrimSpace(rest[:i]), ex})
		case "loop":
			if curFunc == nil {
				return nil, fail("loop outside func")
			}
			// loop #k invariant L [props]: e
			f := strings.Fields(rest)
			if len(f) >= 3 && strings.HasPrefix(f[0], "#") && f[1] == "shape" {
				k, err := strconv.Atoi(f[0][1:])
				if err != nil {
					return nil, fail("loop ordinal")
				}
				c, err := parseClause(strings.TrimSpace(rest[strings.Index(rest, "shape")+len("shape"):]), s.no)
				if err != nil {
					return nil, fail("%v", err)
				}
				if curFunc.LoopShapes == nil {
					curFunc.LoopShapes = map[int][]*Clause{}
				}
				curFunc.LoopShapes[k] = append(curFunc.LoopShapes[k], c)
				break
			}
			if len(f) < 3 || !strings.HasPrefix(f[0], "#") || f[1] != "invariant" {
				return nil, fail("loop #k invariant L: e")
			}
			k, err := strconv.Atoi(f[0][1:])
			if err != nil {
				return nil, fail("loop ordinal")
			}
			body := strings.TrimSpace(rest[strings.Index(rest, "invariant")+len("invariant"):])
			c, err := parseClause(body, s.no)
			if err != nil {
				return nil, fail("%v", err)
			}
			curFunc.LoopInvs[k] = append(curFunc.LoopInvs[k], c)
		case "at":
			if curFunc == nil {
				return nil, fail("at outside func")
			}
			// at call <callee> [#k]: assert L [props]: e      |  at call <callee> [#k]: set $g := e
			before := false
			if j := strings.Index(rest, ": setbefore "); j >= 0 {
				rest = rest[:j] + ": set " + rest[j+len(": setbefore "):]
				before = true
			}
			if j := strings.Index(rest, ": set "); j >= 0 {
				head := strings.TrimSpace(rest[:j])
				kind := firstWord(head)
				callee := strings.TrimSpace(head[len(kind):])
				ord := 0
				if k := strings.LastIndex(callee, " #"); k >= 0 {
					if n, err := strconv.Atoi(callee[k+2:]); err == nil {
						ord = n
						callee = strings.TrimSpace(callee[:k])
					}
				}
				body := rest[j+len(": set "):]
				a := strings.Index(body, ":=")
				if a < 0 {
					return nil, fail("set $g := e")
				}
				ex, err := ParseExpr(body[a+2:])
				if err != nil {
					return nil, fail("%v", err)
				}
				curFunc.Sites = append(curFunc.Sites, &SiteSpec{Kind: kind, Callee: callee, Ordinal: ord, SetGhost: strings.TrimSpace(body[:a]), SetExpr: ex, Before: before,
					Clause: &Clause{Label: "set " + strings.TrimSpace(body[:a]), Line: s.no}})
				break
			}
			if j := strings.Index(rest, ": later "); j >= 0 {
				head := strings.TrimSpace(rest[:j])
				kind := firstWord(head)
				callee := strings.TrimSpace(head[len(kind):])
				ord := 0
				if k := strings.LastIndex(callee, " #"); k >= 0 {
					if n, err := strconv.Atoi(callee[k+2:]); err == nil {
						ord = n
						callee = strings.TrimSpace(callee[:k])
					}
				}
				curFunc.Sites = append(curFunc.Sites, &SiteSpec{Kind: kind, Callee: callee, Ordinal: ord, Later: strings.TrimSpace(rest[j+len(": later "):]),
					Clause: &Clause{Label: "later " + strings.TrimSpace(rest[j+len(": later "):]), Line: s.no}})
				break
			}
			isLemma := false
			lemmaAfter := false
			isIter := false
			if j := strings.Index(rest, ": iter-invariant "); j >= 0 {
				rest = rest[:j] + ": assert " + rest[j+len(": iter-invariant "):]
				isIter = true
			}
			i := strings.Index(rest, ": assert ")
			if i < 0 {
				// `at call f: lemma L: e` is proved at the site like an assert and, unlike an assert, may be used afterwards
				if j := strings.Index(rest, ": lemma-after "); j >= 0 {
					rest = rest[:j] + ": assert " + rest[j+len(": lemma-after "):]
					i = j
					isLemma = true
					lemmaAfter = true
				} else if j := strings.Index(rest, ": lemma "); j >= 0 {
					rest = rest[:j] + ": assert " + rest[j+len(": lemma "):]
					i = j
					isLemma = true
				}
			}
			if i < 0 {
				return nil, fail("at <kind> <callee>: assert L: e")
			}
			head := strings.TrimSpace(rest[:i])
			kind := firstWord(head)
			callee := strings.TrimSpace(head[len(kind):])
			ord := 0
			if j := strings.LastIndex(callee, " #"); j >= 0 {
				if n, err := strconv.Atoi(callee[j+2:]); err == nil {
					ord = n
					callee = strings.TrimSpace(callee[:j])
				}
			}
			c, err := parseClause(rest[i+len(": assert "):], s.no)
			if err != nil {
				return nil, fail("%v", err)
			}
			curFunc.Sites = append(curFunc.Sites, &SiteSpec{Kind: kind, Callee: callee, Ordinal: ord, Clause: c, Lemma: isLemma, After: lemmaAfter, Iter: isIter})
		case "arith":
			curFunc.ArithChecked = true
		case "conv":
			curFunc.ConvLossless = true
		case "panics":
			curFunc.PanicsDocumented = true
		case "bytes":
			curFunc.ByteContents = true
		case "inline":
			curFunc.InlineOnly = true
		case "modular":
			curFunc.Modular = true
		case "trusted":
			curFunc.Trusted = true
			sf.Keywords["trusted"]++
		case "retains":
			if curFunc == nil {
				return nil, fail("retains outside func")
			}
			name, props := splitLabelProps(rest)
			curFunc.Retains = append(curFunc.Retains, RetainSpec{Param: strings.TrimSpace(name), Props: props})
		case "discipline":
			curFunc.Discipline = true
			_, curFunc.DisciplineProps = splitLabelProps(rest)
		case "strict":
			if curLock != nil {
				curLock.Strict = true
			}
		case "recv":
			if curLock != nil {
				curLock.Recv = rest
			}
		default:
			return nil, fail("unknown statement %q", w)
		}
	}
	return sf, nil
}

func firstWord(s string) string {
	s = strings.TrimSpace(s)
	for i, r := range s {
		if unicode.IsSpace(r) {
			return s[:i]
		}
	}
	return s
}

// "Label [C01,C02]" -> label, props
func splitLabelProps(s string) (string, []string) {
	s = strings.TrimSpace(s)
	var props []string
	if i := strings.Index(s, "["); i >= 0 {
		if j := strings.Index(s[i:], "]"); j > 0 {
			for _, p := range strings.Split(s[i+1:i+j], ",") {
				if p = strings.TrimSpace(p); p != "" {
					props = append(props, p)
				}
			}
			s = strings.TrimSpace(s[:i] + s[i+j+1:])
		}
	}
	return s, props
}

// parseClause: "Label [props]: expr"
func parseClause(s string, line int) (*Clause, error) {
	// find the first ':' that is not part of ':=' or '::' and is outside brackets after the label
	depth := 0
	idx := -1
	for i := 0; i < len(s); i++ {
		switch s[i] {
		case '[', '(':
			depth++
		case ']', ')':
			depth--
		case ':':
			if depth == 0 && (i+1 >= len(s) || (s[i+1] != ':' && s[i+1] != '=')) && (i == 0 || s[i-1] != ':') {
				idx = i
			}
		}
		if idx >= 0 {
			break
		}
	}
	if idx < 0 {
		return nil, fmt.Errorf("clause needs 'Label [props]: expr' in %q", s)
	}
	label, props := splitLabelProps(s[:idx])
	ex, err := ParseExpr(s[idx+1:])
	if err != nil {
		return nil, fmt.Errorf("clause %s: %v", label, err)
	}
	return &Clause{Label: label, Props: props, Expr: ex, Raw: strings.TrimSpace(s[idx+1:]), Line: line}, nil
}

// header: "(*Memberlist).deadNode(m, d)" or "pkcs7decode(buf, blockSize)"
func parseHeader(s string) (string, []string, error) {
	s = strings.TrimSpace(s)
	i := strings.LastIndex(s, "(")
	if i < 0 || !strings.HasSuffix(s, ")") {
		return s, nil, nil
	}
	name := strings.TrimSpace(s[:i])
	var ps []string
	for _, p := range strings.Split(s[i+1:len(s)-1], ",") {
		if p = strings.TrimSpace(p); p != "" {
			ps = append(ps, p)
		}
	}
	return name, ps, nil
}

func parseParams(s string) ([]Param, error) {
	var ps []Param
	for _, p := range splitTop(s, ',') {
		p = strings.TrimSpace(p)
		if p == "" {
			continue
		}
		i := strings.IndexAny(p, " \t")
		if i < 0 {
			return nil, fmt.Errorf("parameter %q needs a type", p)
		}
		ps = append(ps, Param{strings.TrimSpace(p[:i]), strings.TrimSpace(p[i+1:])})
	}
	return ps, nil
}

func splitTop(s string, sep byte) []string {
	var out []string
	depth := 0
	last := 0
	for i := 0; i < len(s); i++ {
		switch s[i] {
		case '(', '[':
			depth++
		case ')', ']':
			depth--
		default:
			if s[i] == sep && depth == 0 {
				out = append(out, s[last:i])
				last = i + 1
			}
		}
	}
	out = append(out, s[last:])
	return out
}

// pure name(p T, q U) R := expr
func parsePure(s string) (*PureDef, error) {
	i := strings.Index(s, ":=")
	if i < 0 {
		// `pure f(x T) R` without a body: an uninterpreted function of its arguments
		head := strings.TrimSpace(s)
		lp := strings.Index(head, "(")
		rp := strings.LastIndex(head, ")")
		if lp < 0 || rp < lp || strings.TrimSpace(head[rp+1:]) == "" {
			return nil, fmt.Errorf("pure needs := or a result type")
		}
		ps, err := parseParams(head[lp+1 : rp])
		if err != nil {
			return nil, err
		}
		return &PureDef{Name: strings.TrimSpace(head[:lp]), Params: ps, Ret: strings.TrimSpace(head[rp+1:])}, nil
	}
	head := strings.TrimSpace(s[:i])
	lp := strings.Index(head, "(")
	rp := strings.LastIndex(head, ")")
	if lp < 0 || rp < lp {
		return nil, fmt.Errorf("pure header")
	}
	ps, err := parseParams(head[lp+1 : rp])
	if err != nil {
		return nil, err
	}
	body, err := ParseExpr(s[i+2:])
	if err != nil {
		return nil, err
	}
	return &PureDef{Name: strings.TrimSpace(head[:lp]), Params: ps, Ret: strings.TrimSpace(head[rp+1:]), Body: body}, nil
}

// datatype Event = EvJoin(name string, meta bseq) | EvLeave(name string)
func parseDatatype(s string) (*DatatypeDef, error) {
	i := strings.Index(s, "=")
	if i < 0 {
		return nil, fmt.Errorf("datatype needs =")
	}
	dt := &DatatypeDef{Name: strings.TrimSpace(s[:i])}
	for _, c := range splitTop(s[i+1:], '|') {
		c = strings.TrimSpace(c)
		lp := strings.Index(c, "(")
		if lp < 0 {
			dt.Ctors = append(dt.Ctors, CtorDef{Name: c})
			continue
		}
		ps, err := parseParams(c[lp+1 : len(c)-1])
		if err != nil {
			return nil, err
		}
		dt.Ctors = append(dt.Ctors, CtorDef{Name: strings.TrimSpace(c[:lp]), Fields: ps})
	}
	return dt, nil
}

// ---------------------------------------------------------------------
// expression language
// ---------------------------------------------------------------------

type Expr interface{}

type EIdent struct{ Name string }
type ENum struct{ V string }
type EStr struct{ V string }
type EUn struct {
	Op string
	X  Expr
}
type EBin struct {
	Op   string
	L, R Expr
}
type ECall struct {
	Fn   string
	Args []Expr
}
type ESel struct {
	X    Expr
	Name string
}
type EIdx struct{ X, I Expr }
type ESlice struct{ X, Lo, Hi Expr }
type EQuant struct {
	Forall bool
	Vars   []Param
	Body   Expr
}
type EOld struct{ X Expr }

type tok struct {
	kind string // id num str op eof
	val  string
}

type lexer struct {
	toks []tok
	pos  int
}

func lex(s string) ([]tok, error) {
	var toks []tok
	i := 0
	for i < len(s) {
		c := s[i]
		switch {
		case c == ' ' || c == '\t' || c == '\n':
			i++
		case unicode.IsLetter(rune(c)) || c == '_' || c == '$':
			j := i + 1
			for j < len(s) && (unicode.IsLetter(rune(s[j])) || unicode.IsDigit(rune(s[j])) || s[j] == '_' || s[j] == '$') {
				j++
			}
			toks = append(toks, tok{"id", s[i:j]})
			i = j
		case unicode.IsDigit(rune(c)):
			j := i + 1
			for j < len(s) && (unicode.IsDigit(rune(s[j])) || s[j] == '.') {
				j++
			}
			toks = append(toks, tok{"num", s[i:j]})
			i = j
		case c == '"':
			j := i + 1
			for j < len(s) && s[j] != '"' {
				j++
			}
			if j >= len(s) {
				return nil, fmt.Errorf("unterminated string")
			}
			toks = append(toks, tok{"str", s[i+1 : j]})
			i = j + 1
		default:
			for _, op := range []string{"<==>", "==>", "::", ":=", "==", "!=", "<=", ">=", "&&", "||", "<", ">", "+", "-", "*", "/", "%", "!", "(", ")", "[", "]", ",", ".", ":", "{", "}", "|"} {
				if strings.HasPrefix(s[i:], op) {
					toks = append(toks, tok{"op", op})
					i += len(op)
					goto next
				}
			}
			return nil, fmt.Errorf("unexpected character %q in %q", c, s)
		next:
		}
	}
	toks = append(toks, tok{"eof", ""})
	return toks, nil
}

func ParseExpr(s string) (Expr, error) {
	toks, err := lex(s)
	if err != nil {
		return nil, err
	}
	p := &lexer{toks: toks}
	e, err := p.parseExpr(0)
	if err != nil {
		return nil, fmt.Errorf("%v in %q", err, strings.TrimSpace(s))
	}
	if p.peek().kind != "eof" {
		return nil, fmt.Errorf("trailing tokens at %q in %q", p.peek().val, strings.TrimSpace(s))
	}
	return e, nil
}

func (p *lexer) peek() tok { return p.toks[p.pos] }
func (p *lexer) next() tok { t := p.toks[p.pos]; p.pos++; return t }
func (p *lexer) accept(op string) bool {
	if p.peek().kind == "op" && p.peek().val == op {
		p.pos++
		return true
	}
	return false
}
func (p *lexer) expect(op string) error {
	if !p.accept(op) {
		return fmt.Errorf("expected %q, got %q", op, p.peek().val)
	}
	return nil
}

var binPrec = map[string]int{"<==>": 1, "==>": 2, "||": 3, "&&": 4, "==": 5, "!=": 5, "<": 5, "<=": 5, ">": 5, ">=": 5, "+": 6, "-": 6, "*": 7, "/": 7, "%": 7}

func (p *lexer) parseExpr(minPrec int) (Expr, error) {
	if t := p.peek(); t.kind == "id" && (t.val == "forall" || t.val == "exists") {
		p.next()
		var vars []Param
		for {
			n := p.next()
			if n.kind != "id" {
				return nil, fmt.Errorf("quantifier variable expected")
			}
			// type: tokens until ',' or '::'
			var ty strings.Builder
			for !(p.peek().kind == "op" && (p.peek().val == "," || p.peek().val == "::")) {
				if p.peek().kind == "eof" {
					return nil, fmt.Errorf("quantifier needs ::")
				}
				ty.WriteString(p.next().val)
			}
			vars = append(vars, Param{n.val, ty.String()})
			if p.accept(",") {
				continue
			}
			if err := p.expect("::"); err != nil {
				return nil, err
			}
			break
		}
		body, err := p.parseExpr(0)
		if err != nil {
			return nil, err
		}
		return &EQuant{Forall: t.val == "forall", Vars: vars, Body: body}, nil
	}
	lhs, err := p.parseUnary()
	if err != nil {
		return nil, err
	}
	for {
		t := p.peek()
		if t.kind != "op" {
			break
		}
		prec, ok := binPrec[t.val]
		if !ok || prec < minPrec {
			break
		}
		p.next()
		nextMin := prec + 1
		if t.val == "==>" {
			nextMin = prec // right associative
		}
		var rhs Expr
		// allow a quantifier on the right of ==> / && without parentheses
		rhs, err = p.parseExpr(nextMin)
		if err != nil {
			return nil, err
		}
		lhs = &EBin{Op: t.val, L: lhs, R: rhs}
	}
	return lhs, nil
}

func (p *lexer) parseUnary() (Expr, error) {
	if p.accept("!") {
		x, err := p.parseUnary()
		if err != nil {
			return nil, err
		}
		return &EUn{"!", x}, nil
	}
	if p.accept("-") {
		x, err := p.parseUnary()
		if err != nil {
			return nil, err
		}
		return &EUn{"-", x}, nil
	}
	if p.accept("*") {
		x, err := p.parseUnary()
		if err != nil {
			return nil, err
		}
		return &EUn{"*", x}, nil
	}
	return p.parsePostfix()
}

func (p *lexer) parsePostfix() (Expr, error) {
	x, err := p.parsePrimary()
	if err != nil {
		return nil, err
	}
	for {
		switch {
		case p.accept("."):
			n := p.next()
			if n.kind != "id" {
				return nil, fmt.Errorf("field name expected after '.'")
			}
			x = &ESel{x, n.val}
		case p.accept("["):
			if p.accept(":") {
				hi, err := p.parseExpr(0)
				if err != nil {
					return nil, err
				}
				if err := p.expect("]"); err != nil {
					return nil, err
				}
				x = &ESlice{x, nil, hi}
				continue
			}
			i, err := p.parseExpr(0)
			if err != nil {
				return nil, err
			}
			if p.accept(":") {
				var hi Expr
				if !(p.peek().kind == "op" && p.peek().val == "]") {
					hi, err = p.parseExpr(0)
					if err != nil {
						return nil, err
					}
				}
				if err := p.expect("]"); err != nil {
					return nil, err
				}
				x = &ESlice{x, i, hi}
				continue
			}
			if err := p.expect("]"); err != nil {
				return nil, err
			}
			x = &EIdx{x, i}
		default:
			return x, nil
		}
	}
}

func (p *lexer) parsePrimary() (Expr, error) {
	t := p.next()
	switch t.kind {
	case "num":
		return &ENum{t.val}, nil
	case "str":
		return &EStr{t.val}, nil
	case "id":
		if p.peek().kind == "op" && p.peek().val == "(" {
			p.next()
			var args []Expr
			if !p.accept(")") {
				for {
					a, err := p.parseExpr(0)
					if err != nil {
						return nil, err
					}
					args = append(args, a)
					if p.accept(",") {
						continue
					}
					if err := p.expect(")"); err != nil {
						return nil, err
					}
					break
				}
			}
			if t.val == "old" && len(args) == 1 {
				return &EOld{args[0]}, nil
			}
			return &ECall{t.val, args}, nil
		}
		return &EIdent{t.val}, nil
	case "op":
		if t.val == "(" {
			e, err := p.parseExpr(0)
			if err != nil {
				return nil, err
			}
			if err := p.expect(")"); err != nil {
				return nil, err
			}
			return e, nil
		}
	}
	return nil, fmt.Errorf("unexpected token %q", t.val)
}
