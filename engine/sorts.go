package main

import (
	"fmt"
	"go/types"
	"regexp"
	"strings"
)

// Sort mapping from Go types to SMT sorts (DESIGN §2.4).
//   integers, pointers, maps, chans, funcs, interfaces -> Int   (nil = 0)
//   bool -> Bool, string -> Str (uninterpreted), floats -> Real
//   time.Time -> Int (clock reading, ns), sync/atomic cells -> their payload
//   slices -> Slice datatype, structs -> per-type datatype, arrays -> (Array Int T)

const slicePreludeDecl = `(declare-sort Str 0)
(declare-sort BSeq 0)
(declare-datatypes ((Slice 0)) (((mk_slice (s_arr Int) (s_off Int) (s_len Int) (s_cap Int)))))
(declare-fun strlen (Str) Int)
(declare-fun str_empty () Str)
(assert (= (strlen str_empty) 0))
(declare-fun strcat (Str Str) Str)
(declare-fun strat (Str Int) Int)
(declare-fun strlt (Str Str) Bool)
(declare-fun str_of_bseq (BSeq) Str)
(declare-fun bseq_of_str (Str) BSeq)
(declare-fun bseq (( Array Int Int) Int Int) BSeq)
(declare-fun bseq_len (BSeq) Int)
(declare-fun bseq_at (BSeq Int) Int)
(declare-fun typeof (Int) Int)
(declare-fun uf_bitand (Int Int) Int)
(declare-fun uf_bitor (Int Int) Int)
(declare-fun uf_bitxor (Int Int) Int)
(declare-fun uf_shl (Int Int) Int)
(declare-fun uf_shr (Int Int) Int)
(declare-fun uf_rem (Int Int) Int)
(declare-fun at (Int Int) Int)
(assert (forall ((o Int) (i Int)) (! (= (at o i) (+ o i)) :pattern ((at o i)))))
`

// slicePrelude: declarations, the definition of sumlens, and the lemmas about it (prelude_lemmas.go; the lemmas are
// proved by induction from the definition on every run of a property that uses sumlens).
var slicePrelude = slicePreludeDecl + sumlensPrelude()

func isNamed(t types.Type, pkg, name string) bool {
	n, ok := types.Unalias(t).(*types.Named)
	if !ok {
		return false
	}
	o := n.Obj()
	return o.Name() == name && o.Pkg() != nil && o.Pkg().Path() == pkg
}

// opaqueScalar: named struct types we model as a single scalar.
func opaqueScalar(t types.Type) (string, bool) {
	n, ok := types.Unalias(t).(*types.Named)
	if !ok || n.Obj().Pkg() == nil {
		return "", false
	}
	p, nm := n.Obj().Pkg().Path(), n.Obj().Name()
	switch p {
	case "time":
		switch nm {
		case "Time":
			return "Int", true
		}
	case "sync/atomic":
		switch nm {
		case "Uint32", "Int32", "Uint64", "Int64", "Uintptr":
			return "Int", true
		case "Bool":
			return "Bool", true
		case "Value", "Pointer":
			return "Int", true
		}
	case "sync":
		switch nm {
		case "Mutex", "RWMutex", "WaitGroup", "Once", "Cond", "Map", "Pool":
			return "Int", true
		}
	}
	return "", false
}

var byteRe = regexp.MustCompile(`\bbyte\b`)
var runeRe = regexp.MustCompile(`\brune\b`)

func typeKey(t types.Type) string {
	s := types.TypeString(types.Unalias(t), func(p *types.Package) string {
		if p.Path() == "github.com/hashicorp/memberlist" {
			return ""
		}
		return p.Name()
	})
	// byte and rune are aliases: one region per underlying element type
	s = byteRe.ReplaceAllString(s, "uint8")
	s = runeRe.ReplaceAllString(s, "int32")
	return sanitize(s)
}

func (e *Eng) sortOf(t types.Type) string {
	t = types.Unalias(t)
	if s, ok := opaqueScalar(t); ok {
		return s
	}
	switch u := t.Underlying().(type) {
	case *types.Basic:
		switch {
		case u.Info()&types.IsBoolean != 0:
			return "Bool"
		case u.Info()&types.IsString != 0:
			return "Str"
		case u.Info()&types.IsFloat != 0:
			return "Real"
		case u.Info()&types.IsComplex != 0:
			return "Real"
		default:
			return "Int"
		}
	case *types.Pointer, *types.Map, *types.Chan, *types.Signature, *types.Interface:
		return "Int"
	case *types.Slice:
		return "Slice"
	case *types.Array:
		return "(Array Int " + e.sortOf(u.Elem()) + ")"
	case *types.Struct:
		return e.structSort(t, u)
	case *types.Tuple:
		return "Int"
	}
	return "Int"
}

func (e *Eng) structName(t types.Type) string {
	t = types.Unalias(t)
	if n, ok := t.(*types.Named); ok {
		return typeKey(n)
	}
	return "anon_" + fmt.Sprintf("%x", hashString(types.TypeString(t, nil)))
}

func hashString(s string) uint32 {
	var h uint32 = 2166136261
	for i := 0; i < len(s); i++ {
		h ^= uint32(s[i])
		h *= 16777619
	}
	return h
}

func (e *Eng) structSort(t types.Type, st *types.Struct) string {
	name := "S_" + e.structName(t)
	if e.sc.declared[name] {
		return name
	}
	// declare field sorts first (nested structs)
	var fs []string
	for i := 0; i < st.NumFields(); i++ {
		fs = append(fs, fmt.Sprintf("(%s_%d %s)", name, i, e.sortOf(st.Field(i).Type())))
	}
	if len(fs) == 0 {
		e.sc.declare(name, fmt.Sprintf("(declare-datatypes ((%s 0)) (((mk_%s))))", name, name))
	} else {
		e.sc.declare(name, fmt.Sprintf("(declare-datatypes ((%s 0)) (((mk_%s %s))))", name, name, strings.Join(fs, " ")))
	}
	return name
}

func (e *Eng) zero(t types.Type) string {
	t = types.Unalias(t)
	if s, ok := opaqueScalar(t); ok {
		if s == "Bool" {
			return "false"
		}
		return "0"
	}
	switch u := t.Underlying().(type) {
	case *types.Basic:
		switch {
		case u.Info()&types.IsBoolean != 0:
			return "false"
		case u.Info()&types.IsString != 0:
			return "str_empty"
		case u.Info()&types.IsFloat != 0:
			return "0.0"
		default:
			return "0"
		}
	case *types.Slice:
		return "(mk_slice 0 0 0 0)"
	case *types.Array:
		return e.constArray(e.sortOf(t), e.zero(u.Elem()))
	case *types.Struct:
		name := e.structSort(t, u)
		if u.NumFields() == 0 {
			return "mk_" + name
		}
		var fs []string
		for i := 0; i < u.NumFields(); i++ {
			fs = append(fs, e.zero(u.Field(i).Type()))
		}
		return "(mk_" + name + " " + strings.Join(fs, " ") + ")"
	}
	return "0"
}

// intRange returns (lo, hi, ok) for bounded integer types.
func intRange(t types.Type) (string, string, bool) {
	b, ok := types.Unalias(t).Underlying().(*types.Basic)
	if !ok {
		return "", "", false
	}
	switch b.Kind() {
	case types.Uint8:
		return "0", "255", true
	case types.Uint16:
		return "0", "65535", true
	case types.Uint32:
		return "0", "4294967295", true
	case types.Uint64, types.Uint, types.Uintptr:
		return "0", "18446744073709551615", true
	case types.Int8:
		return "(- 128)", "127", true
	case types.Int16:
		return "(- 32768)", "32767", true
	case types.Int32:
		return "(- 2147483648)", "2147483647", true
	case types.Int64, types.Int:
		return "(- 9223372036854775808)", "9223372036854775807", true
	}
	return "", "", false
}

func unsignedModulus(t types.Type) (string, bool) {
	b, ok := types.Unalias(t).Underlying().(*types.Basic)
	if !ok {
		return "", false
	}
	switch b.Kind() {
	case types.Uint8:
		return "256", true
	case types.Uint16:
		return "65536", true
	case types.Uint32:
		return "4294967296", true
	case types.Uint64, types.Uint, types.Uintptr:
		return "18446744073709551616", true
	}
	return "", false
}

func signedBits(t types.Type) (int, bool) {
	b, ok := types.Unalias(t).Underlying().(*types.Basic)
	if !ok {
		return 0, false
	}
	switch b.Kind() {
	case types.Int8:
		return 8, true
	case types.Int16:
		return 16, true
	case types.Int32:
		return 32, true
	case types.Int64, types.Int:
		return 64, true
	}
	return 0, false
}

func isUnsigned(t types.Type) bool { _, ok := unsignedModulus(t); return ok }

func isFloat(t types.Type) bool {
	b, ok := types.Unalias(t).Underlying().(*types.Basic)
	return ok && b.Info()&types.IsFloat != 0
}
func isInteger(t types.Type) bool {
	b, ok := types.Unalias(t).Underlying().(*types.Basic)
	return ok && b.Info()&types.IsInteger != 0
}
func isString(t types.Type) bool {
	b, ok := types.Unalias(t).Underlying().(*types.Basic)
	return ok && b.Info()&types.IsString != 0
}
func isBool(t types.Type) bool {
	b, ok := types.Unalias(t).Underlying().(*types.Basic)
	return ok && b.Info()&types.IsBoolean != 0
}

func derefType(t types.Type) types.Type {
	if p, ok := types.Unalias(t).Underlying().(*types.Pointer); ok {
		return p.Elem()
	}
	return nil
}

func structOf(t types.Type) *types.Struct {
	s, _ := types.Unalias(t).Underlying().(*types.Struct)
	return s
}

// isStructValue: a struct type that is represented as a datatype (not opaque scalar).
func isStructValue(t types.Type) bool {
	if _, ok := opaqueScalar(t); ok {
		return false
	}
	return structOf(t) != nil
}

// constArray: cvc5 wants a *value* under (as const ...); zero values mentioning the
// uninterpreted empty string are given through an axiomatised constant instead.
func (e *Eng) constArray(arrSort, zero string) string {
	if !strings.Contains(zero, "str_empty") {
		return fmt.Sprintf("((as const %s) %s)", arrSort, zero)
	}
	name := "zarr_" + sanitize(arrSort)
	if !e.sc.declared[name] {
		e.sc.declConst(name, arrSort)
		e.sc.declare(name+"_ax", fmt.Sprintf("(assert (forall ((i Int)) (! (= (select %s i) %s) :pattern ((select %s i)))))", name, zero, name))
	}
	return name
}
