package main

import (
	"fmt"
	"go/token"
	"go/types"
	"sort"
	"strings"

	"golang.org/x/tools/go/ssa"
)

// ---------------------------------------------------------------------
// Values, locations, state
// ---------------------------------------------------------------------

type LocKind int

const (
	LNone  LocKind = iota
	LField         // field Idx of struct object (field-heap representation) at Base
	LElem          // element Idx of backing array Base (element type ET)
	LCell          // scalar cell at Base (pointee type ET)
	LPath          // field path inside a struct *value* stored at Root
	LArr           // pointer to whole array Base (element type ET)
)

type Loc struct {
	Kind LocKind
	Base string       // pointer / array ref term
	ST   types.Type   // struct type (LField)
	Idx  int          // field index (LField)
	IdxT string       // index term (LElem)
	ET   types.Type   // pointee type
	Root *Loc         // LPath
	Path []int        // LPath
	PT   []types.Type // struct types along path (LPath)
}

type Closure struct {
	Fn       *ssa.Function
	Bindings []*Val
}

type Val struct {
	T   string // SMT term
	Typ types.Type
	Loc *Loc
	Tup []*Val
	Clo *Closure
	Lit *string // known string literal
	Boxed *Val  // interface value made from this (pointer) value
	Sort string // SMT sort for spec-only values (Typ == nil)
	// for slices built from a fixed-size array literal
	KnownLen int // -1 unknown
}

func (v *Val) String() string {
	if v == nil {
		return "<nil>"
	}
	return v.T
}

type State struct {
	reg  map[string]string
	held map[string]string // lock key -> "W" | "R"
	heldBase map[string]*Val // lock key -> the object whose lock it is (for the held locks)
	// ghost: snapshot taken at first Lock of a monitor function
	monOld *State
}

func (s *State) clone() *State {
	n := &State{reg: make(map[string]string, len(s.reg)), held: make(map[string]string, len(s.held)), monOld: s.monOld, heldBase: map[string]*Val{}}
	for k, v := range s.reg {
		n.reg[k] = v
	}
	for k, v := range s.held {
		n.held[k] = v
	}
	for k, v := range s.heldBase {
		n.heldBase[k] = v
	}
	return n
}

type Obl struct {
	ID     int
	Name   string
	Kind   string
	Props  []string
	Pos    string
	Check  bool
	Result string // unsat | sat | unknown | timeout | assumed
	Solver string
	Time   float64
	Model  string
	Phi    string
	IsCover bool
}

var onlyFilter string

type storeDef struct{ base, idx, val string }

type Eng struct {
	siteExtra map[string]*Val
	pendingUp *Frame
	cloByTerm map[string]*Closure
	covSeq int
	ld   *Loaded
	sc   *Script
	spec *SpecFile

	regionSort map[string]string
	subIdx     map[string]int
	typeIDs    map[string]int
	strLits    map[string]string

	obls     []*Obl
	oblNames map[string]int
	notes    map[string]bool
	errs     []string

	rootFn   *ssa.Function
	propSel  string // property id selecting which obligations are checked ("" = all)
	safetyProps []string
	maxInline int
	inlineStack []*ssa.Function
	namePrefix  string

	modCache map[*ssa.Function]map[string]bool
	modGeneral map[*ssa.Function]map[string]bool
	curGen map[string]bool
	freshScope map[*ssa.BasicBlock]bool
	storeDefs map[string]storeDef // heap version name -> (previous version, index, value)
	allocRefs map[string]bool
	allocType map[string]types.Type // pointee type of an allocation reference (when known)
	published map[string]bool // allocation refs that were stored into the heap (may be visible to other goroutines)
	wantModels bool
	mathTerms [][3]string
	valueFieldTypes map[string]bool
	wfFrontier string
	rootFrame *Frame
	entryState *State
	atRootExit bool
	siteHits map[*SiteSpec]int
	modelIDs map[int]bool
	regionElemType map[string]types.Type
	regionKeySort map[string]string
	pendingNonNil map[string]bool
}

func NewEng(ld *Loaded, spec *SpecFile) *Eng {
	e := &Eng{ld: ld, spec: spec, sc: NewScript(),
		regionSort: map[string]string{}, subIdx: map[string]int{}, typeIDs: map[string]int{},
		strLits: map[string]string{}, oblNames: map[string]int{}, notes: map[string]bool{},
		maxInline: 4, modCache: map[*ssa.Function]map[string]bool{}, storeDefs: map[string]storeDef{}, allocRefs: map[string]bool{}, allocType: map[string]types.Type{}, published: map[string]bool{}, regionElemType: map[string]types.Type{}, regionKeySort: map[string]string{}}
	e.sc.prelude.WriteString(slicePrelude)
	defer e.btInit()
	if spec != nil {
		e.declDatatypes()
		e.declTrace()
	}
	return e
}

func (e *Eng) note(format string, a ...interface{}) { e.notes[fmt.Sprintf(format, a...)] = true }
func (e *Eng) errf(format string, a ...interface{}) {
	e.errs = append(e.errs, fmt.Sprintf(format, a...))
}

// ---------- regions ----------

func (e *Eng) regInit(name, sortName string) string {
	if old, ok := e.regionSort[name]; ok && old != sortName {
		e.errf("region %s sort mismatch %s vs %s", name, old, sortName)
	}
	e.regionSort[name] = sortName
	c := "R0_" + sanitize(name)
	if !e.sc.declared[c] {
		e.sc.declConst(c, sortName)
		fr0 := "R0_" + sanitize(frRegion)
		if name != frRegion {
			fr0 = e.regInit(frRegion, "Int")
		}
		if ax := e.regionWF(name, c, fr0); ax != "" {
			e.sc.declare(c+"_wf", "(assert "+ax+")")
		}
	}
	return c
}

// regionWF: every value stored in a typed heap region is within its Go type's range
// (the frontier-dependent parts of well-formedness are assumed at each load instead).
func (e *Eng) regionWF(name, c, frTerm string) string {
	e.wfFrontier = frTerm
	defer func() { e.wfFrontier = "" }()
	t, ok := e.regionElemType[name]
	if !ok || t == nil {
		return ""
	}
	depth := 1
	if strings.HasPrefix(name, "E.") || strings.HasPrefix(name, "MV.") {
		depth = 2
	}
	var term, pat, vars string
	if depth == 1 {
		term = "(select " + c + " p)"
		vars = "((p Int))"
	} else if strings.HasPrefix(name, "MV.") {
		ks := e.regionKeySort[name]
		term = "(select (select " + c + " p) k)"
		vars = "((p Int) (k " + ks + "))"
	} else {
		term = "(select (select " + c + " p) k)"
		vars = "((p Int) (k Int))"
	}
	pat = term
	w := e.wfTerm(nil, term, t, 1)
	if w == "true" {
		return ""
	}
	return fmt.Sprintf("(forall %s (! %s :pattern (%s)))", vars, w, pat)
}

func (e *Eng) get(st *State, name, sortName string) string {
	if t, ok := st.reg[name]; ok {
		return t
	}
	if strings.HasPrefix(name, "@post.") {
		// path on which the monitor lock was never released: the post state is the current one
		return e.get(st, strings.TrimPrefix(name, "@post."), sortName)
	}
	if strings.HasPrefix(name, "@old.") {
		// path on which the monitor lock was never taken: old() is the state at function entry
		if e.entryState != nil {
			return e.get(e.entryState, strings.TrimPrefix(name, "@old."), sortName)
		}
		return e.get(st, strings.TrimPrefix(name, "@old."), sortName)
	}
	return e.regInit(name, sortName)
}

func (e *Eng) set(st *State, name, sortName, term, why string) {
	e.regInit(name, sortName)
	st.reg[name] = e.sc.define("h_"+name, sortName, term, why)
}

func (e *Eng) havocReg(st *State, name string) {
	sortName, ok := e.regionSort[name]
	if !ok {
		e.errf("havoc of unregistered region %s", name)
		return
	}
	st.reg[name] = e.sc.havoc("hv_"+name, sortName)
	if ax := e.regionWF(name, st.reg[name], e.get(st, frRegion, "Int")); ax != "" {
		e.sc.assume(ax, "well-formed values in havocked region")
	}
}

// setStore: region := store(region, idx, val), remembered structurally so that
// later selects at the same (or a provably different, freshly allocated) index
// are resolved while generating the VC.
func (e *Eng) setStore(st *State, name, sortName, idx, val, why string) {
	base := e.get(st, name, sortName)
	e.set(st, name, sortName, sto(base, idx, val), why)
	e.storeDefs[st.reg[name]] = storeDef{base, idx, val}
}

func (e *Eng) selReg(st *State, name, sortName, idx string) string {
	cur := e.get(st, name, sortName)
	walk := cur
	for i := 0; i < 64; i++ {
		d, ok := e.storeDefs[walk]
		if !ok {
			break
		}
		if d.idx == idx {
			return d.val
		}
		if e.allocRefs[d.idx] && e.allocRefs[idx] {
			walk = d.base
			continue
		}
		break
	}
	if walk != cur && e.allocRefs[idx] {
		return sel(walk, idx)
	}
	return sel(cur, idx)
}

func (e *Eng) fieldRegion(st types.Type, idx int) (string, string) {
	s := structOf(st)
	f := s.Field(idx)
	n := "F." + e.structName(st) + "." + f.Name()
	e.regionElemType[n] = f.Type()
	return n, "(Array Int " + e.sortOf(f.Type()) + ")"
}

func (e *Eng) elemRegion(et types.Type) (string, string) {
	n := "E." + typeKey(et.Underlying())
	e.regionElemType[n] = et
	return n, "(Array Int (Array Int " + e.sortOf(et) + "))"
}

func (e *Eng) cellRegion(t types.Type) (string, string) {
	n := "C." + typeKey(t)
	e.regionElemType[n] = t
	return n, "(Array Int " + e.sortOf(t) + ")"
}

func (e *Eng) mapRegions(mt *types.Map) (has, hs, val, vs string) {
	k := typeKey(mt.Key()) + "." + typeKey(mt.Elem())
	ks := e.sortOf(mt.Key())
	e.regionElemType["MV."+k] = mt.Elem()
	e.regionKeySort["MV."+k] = ks
	return "MH." + k, "(Array Int (Array " + ks + " Bool))", "MV." + k, "(Array Int (Array " + ks + " " + e.sortOf(mt.Elem()) + "))"
}

const mapLenRegion = "ML"
const mapLenSort = "(Array Int Int)"
const frRegion = "$fr"
const clockRegion = "$clock"
const chanClosedRegion = "$closed"

// sub-object pointer: injective linear encoding (see DESIGN §2.4)
func (e *Eng) subPtr(st types.Type, idx int, base string) string {
	key := e.structName(st) + "." + structOf(st).Field(idx).Name()
	k, ok := e.subIdx[key]
	if !ok {
		k = len(e.subIdx) + 1
		e.subIdx[key] = k
		if k >= 64 {
			e.errf("too many sub-object kinds")
		}
	}
	// hidden behind an uninterpreted function with a definitional axiom so that patterns
	// mentioning sub-object fields match modulo equality (cf. idxAt)
	fn := fmt.Sprintf("sub%d", k)
	e.sc.declare(fn, fmt.Sprintf("(declare-fun %s (Int) Int)\n(assert (forall ((p Int)) (! (= (%s p) (- (- 0 (* 64 p)) %d)) :pattern ((%s p)))))", fn, fn, k, fn))
	return "(" + fn + " " + base + ")"
}

func (e *Eng) typeID(t types.Type) string {
	k := typeKey(t)
	id, ok := e.typeIDs[k]
	if !ok {
		id = len(e.typeIDs) + 1
		e.typeIDs[k] = id
	}
	return fmt.Sprintf("%d", id)
}

func (e *Eng) strLit(s string) string {
	if s == "" {
		return "str_empty"
	}
	if n, ok := e.strLits[s]; ok {
		return n
	}
	n := fmt.Sprintf("strlit_%d", len(e.strLits)+1)
	e.sc.declConst(n, "Str")
	e.sc.declare(n+"_len", fmt.Sprintf("(assert (= (strlen %s) %d)) ; %q", n, len(s), truncStr(s, 40)))
	for _, o := range sortedKeys(e.strLits) {
		e.sc.declare(n+"_ne_"+e.strLits[o], fmt.Sprintf("(assert (not (= %s %s)))", n, e.strLits[o]))
	}
	e.sc.declare(n+"_ne_empty", fmt.Sprintf("(assert (not (= %s str_empty)))", n))
	// byte contents for short literals
	if len(s) <= 8 {
		for i := 0; i < len(s); i++ {
			e.sc.declare(fmt.Sprintf("%s_at_%d", n, i), fmt.Sprintf("(assert (= (strat %s %d) %d))", n, i, s[i]))
		}
	}
	e.strLits[s] = n
	return n
}

func truncStr(s string, n int) string {
	if len(s) > n {
		return s[:n]
	}
	return s
}

// ---------- well-formedness assumptions on values ----------

func (e *Eng) wf(st *State, v *Val) string {
	if v == nil || v.Typ == nil {
		return "true"
	}
	return e.wfTerm(st, v.T, v.Typ, 0)
}

func (e *Eng) wfTerm(st *State, t string, typ types.Type, depth int) string {
	typ = types.Unalias(typ)
	if s, ok := opaqueScalar(typ); ok {
		if isNamed(typ, "sync/atomic", "Uint32") {
			return and(sx("<=", "0", t), sx("<=", t, "4294967295"))
		}
		if isNamed(typ, "sync/atomic", "Int32") {
			return and(sx("<=", "(- 2147483648)", t), sx("<=", t, "2147483647"))
		}
		_ = s
		return "true"
	}
	switch u := typ.Underlying().(type) {
	case *types.Basic:
		if lo, hi, ok := intRange(typ); ok {
			return and(sx("<=", lo, t), sx("<=", t, hi))
		}
		if u.Info()&types.IsString != 0 {
			return and(sx(">=", sx("strlen", t), "0"), sx("<=", sx("strlen", t), "9223372036854775807"))
		}
	case *types.Pointer, *types.Map, *types.Chan:
		if st == nil {
			up := "true"
			if e.wfFrontier != "" {
				up = sx("<", t, e.wfFrontier)
			}
			if _, isMap := u.(*types.Map); isMap {
				return and(sx("<=", "0", t), up)
			}
			if pu, isPtr := u.(*types.Pointer); isPtr && !e.usedAsValueField(pu.Elem()) {
				return and(sx("<=", "0", t), up)
			}
			return up
		}
		fr := e.get(st, frRegion, "Int")
		if _, isMap := u.(*types.Map); isMap {
			return and(sx("<=", "0", t), sx("<", t, fr))
		}
		if pu, isPtr := u.(*types.Pointer); isPtr && !e.usedAsValueField(pu.Elem()) {
			// objects of this type are never sub-objects of another struct: their addresses are allocation references
			return and(sx("<=", "0", t), sx("<", t, fr))
		}
		return sx("<", t, fr)
	case *types.Slice:
		if st == nil {
			return and(sx("<=", "0", sx("s_off", t)), sx("<=", "0", sx("s_len", t)), sx("<=", sx("s_len", t), sx("s_cap", t)), sx("<=", sx("s_cap", t), "9223372036854775807"),
				sx("<=", "0", sx("s_arr", t)), implies(eq(sx("s_arr", t), "0"), and(eq(sx("s_cap", t), "0"), eq(sx("s_off", t), "0"))),
				func() string {
					if e.wfFrontier != "" {
						return sx("<", sx("s_arr", t), e.wfFrontier)
					}
					return "true"
				}())
		}
		fr := e.get(st, frRegion, "Int")
		return and(sx("<=", "0", sx("s_off", t)), sx("<=", "0", sx("s_len", t)), sx("<=", sx("s_len", t), sx("s_cap", t)), sx("<=", sx("s_cap", t), "9223372036854775807"),
			sx("<=", "0", sx("s_arr", t)), sx("<", sx("s_arr", t), fr),
			implies(eq(sx("s_arr", t), "0"), and(eq(sx("s_cap", t), "0"), eq(sx("s_off", t), "0"))))
	case *types.Struct:
		if depth > 2 {
			return "true"
		}
		name := e.structSort(typ, u)
		var cs []string
		for i := 0; i < u.NumFields(); i++ {
			cs = append(cs, e.wfTerm(st, fmt.Sprintf("(%s_%d %s)", name, i, t), u.Field(i).Type(), depth+1))
		}
		return and(cs...)
	}
	return "true"
}

func (e *Eng) assumeWF(st *State, guard string, v *Val) {
	if v == nil {
		return
	}
	if v.Tup != nil {
		for _, x := range v.Tup {
			e.assumeWF(st, guard, x)
		}
		return
	}
	w := e.wf(st, v)
	if w != "true" {
		e.sc.assume(w, "wf")
	}
}

// ---------- memory access ----------

func (e *Eng) loadField(st *State, base string, stt types.Type, idx int) string {
	s := structOf(stt)
	ft := s.Field(idx).Type()
	if isStructValue(ft) {
		return e.loadObject(st, e.subPtr(stt, idx, base), ft)
	}
	r, rs := e.fieldRegion(stt, idx)
	return e.selReg(st, r, rs, base)
}

// loadObject builds the struct value of an object in field-heap representation.
func (e *Eng) loadObject(st *State, ptr string, stt types.Type) string {
	s := structOf(stt)
	name := e.structSort(stt, s)
	if s.NumFields() == 0 {
		return "mk_" + name
	}
	var fs []string
	common := ""
	for i := 0; i < s.NumFields(); i++ {
		f := e.loadField(st, ptr, stt, i)
		fs = append(fs, f)
		// mk(acc_0 x, ..., acc_n x) is x
		pre := fmt.Sprintf("(%s_%d ", name, i)
		if strings.HasPrefix(f, pre) && strings.HasSuffix(f, ")") {
			x := f[len(pre) : len(f)-1]
			if i == 0 {
				common = x
			} else if x != common {
				common = ""
			}
		} else {
			common = ""
		}
	}
	if common != "" {
		return common
	}
	return "(mk_" + name + " " + strings.Join(fs, " ") + ")"
}

func (e *Eng) storeField(st *State, base string, stt types.Type, idx int, v string, why string) {
	s := structOf(stt)
	ft := s.Field(idx).Type()
	if isStructValue(ft) {
		e.storeObject(st, e.subPtr(stt, idx, base), ft, v, why)
		return
	}
	r, rs := e.fieldRegion(stt, idx)
	e.setStore(st, r, rs, base, v, why)
}

func (e *Eng) storeObject(st *State, ptr string, stt types.Type, v string, why string) {
	s := structOf(stt)
	name := e.structSort(stt, s)
	for i := 0; i < s.NumFields(); i++ {
		e.storeField(st, ptr, stt, i, fmt.Sprintf("(%s_%d %s)", name, i, v), why)
	}
}

func (e *Eng) load(st *State, l *Loc) string {
	switch l.Kind {
	case LField:
		return e.loadField(st, l.Base, l.ST, l.Idx)
	case LElem:
		r, rs := e.elemRegion(l.ET)
		return selStoreChain(e.selReg(st, r, rs, l.Base), l.IdxT)
	case LCell:
		if isStructValue(l.ET) {
			return e.loadObject(st, l.Base, l.ET)
		}
		r, rs := e.cellRegion(l.ET)
		return e.selReg(st, r, rs, l.Base)
	case LArr:
		r, rs := e.elemRegion(l.ET)
		return e.selReg(st, r, rs, l.Base)
	case LPath:
		t := e.load(st, l.Root)
		for i, f := range l.Path {
			name := e.structSort(l.PT[i], structOf(l.PT[i]))
			t = fmt.Sprintf("(%s_%d %s)", name, f, t)
		}
		return t
	}
	e.errf("load of unknown loc")
	return "0"
}

func (e *Eng) store(st *State, l *Loc, v string, why string) {
	switch l.Kind {
	case LField:
		e.storeField(st, l.Base, l.ST, l.Idx, v, why)
	case LElem:
		r, rs := e.elemRegion(l.ET)
		arr := e.selReg(st, r, rs, l.Base)
		e.setStore(st, r, rs, l.Base, sto(arr, l.IdxT, v), why)
	case LCell:
		if isStructValue(l.ET) {
			e.storeObject(st, l.Base, l.ET, v, why)
			return
		}
		r, rs := e.cellRegion(l.ET)
		e.setStore(st, r, rs, l.Base, v, why)
	case LArr:
		r, rs := e.elemRegion(l.ET)
		e.setStore(st, r, rs, l.Base, v, why)
	case LPath:
		// functional update of the root struct value
		root := e.load(st, l.Root)
		e.store(st, l.Root, e.updPath(root, l.PT, l.Path, v), why)
	default:
		e.errf("store to unknown loc")
	}
}

func (e *Eng) updPath(root string, pts []types.Type, path []int, v string) string {
	if len(path) == 0 {
		return v
	}
	stt := pts[0]
	s := structOf(stt)
	name := e.structSort(stt, s)
	var fs []string
	for i := 0; i < s.NumFields(); i++ {
		acc := fmt.Sprintf("(%s_%d %s)", name, i, root)
		if i == path[0] {
			fs = append(fs, e.updPath(acc, pts[1:], path[1:], v))
		} else {
			fs = append(fs, acc)
		}
	}
	return "(mk_" + name + " " + strings.Join(fs, " ") + ")"
}

// locOfPtr gives the location a pointer value designates.
func (e *Eng) locOfPtr(v *Val) *Loc {
	if v.Loc != nil {
		return v.Loc
	}
	pt := derefType(v.Typ)
	if pt == nil {
		e.errf("locOfPtr: not a pointer: %v", v.Typ)
		return &Loc{Kind: LCell, Base: v.T, ET: types.Typ[types.Int]}
	}
	if a, ok := types.Unalias(pt).Underlying().(*types.Array); ok {
		return &Loc{Kind: LArr, Base: v.T, ET: a.Elem()}
	}
	return &Loc{Kind: LCell, Base: v.T, ET: pt}
}

// alloc returns a fresh reference.
func (e *Eng) alloc(st *State, why string) string {
	fr := e.get(st, frRegion, "Int")
	ref := e.sc.define("ref", "Int", fr, "alloc "+why)
	e.allocRefs[ref] = true
	e.sc.assume(sx(">", ref, "0"), "allocated references are non-nil")
	e.set(st, frRegion, "Int", sx("+", fr, "1"), "frontier")
	return ref
}

func (e *Eng) zeroObject(st *State, ptr string, stt types.Type, why string) {
	s := structOf(stt)
	for i := 0; i < s.NumFields(); i++ {
		ft := s.Field(i).Type()
		if isStructValue(ft) {
			e.zeroObject(st, e.subPtr(stt, i, ptr), ft, why)
			continue
		}
		r, rs := e.fieldRegion(stt, i)
		e.setStore(st, r, rs, ptr, e.zero(ft), why)
	}
}

// ---------- obligations ----------

func (e *Eng) propsMatch(props []string) bool {
	if e.propSel == "" {
		return true
	}
	for _, p := range props {
		if p == e.propSel {
			return true
		}
	}
	return false
}

func (e *Eng) oblige(kind, key string, props []string, pos token.Pos, guard, phi string) {
	name := e.namePrefix + kind + "/" + key
	e.oblNames[name]++
	if n := e.oblNames[name]; n > 1 {
		name = fmt.Sprintf("%s#%d", name, n)
	}
	check := e.propsMatch(props)
	if onlyFilter != "" && !strings.Contains(name, onlyFilter) {
		check = false
	}
	if phi == "true" || guard == "false" {
		// trivially discharged; still recorded
	}
	o := &Obl{ID: len(e.obls), Name: e.rootName() + "/" + name, Kind: kind, Props: props, Check: check, Phi: phi}
	if pos.IsValid() {
		p := e.ld.fset.Position(pos)
		o.Pos = fmt.Sprintf("%s:%d", shortFile(p.Filename), p.Line)
	}
	if !check {
		o.Result = "assumed"
	}
	e.obls = append(e.obls, o)
	e.sc.comment(fmt.Sprintf("OBLIGATION %d %s @%s", o.ID, o.Name, o.Pos))
	wm := e.wantModels
	if e.modelIDs != nil {
		wm = e.modelIDs[o.ID]
		check = check && wm
	}
	// obligations at the end of a path (lock invariants at Unlock, postconditions, loop steps) are not
	// assumed afterwards: nothing on that path follows, and their quantifiers would only burden later queries
	assumeAfter := !(kind == "lockinv" || kind == "post" || kind == "loop-step" || kind == "iter-step" || kind == "lemma" || kind == "site" || kind == "held")
	e.sc.obligation(o.ID, guard, phi, check, wm, assumeAfter)
}

func (e *Eng) cover(name string, props []string, cond string) {
	if !e.propsMatch(props) || onlyFilter != "" {
		return
	}
	o := &Obl{ID: len(e.obls), Name: e.rootName() + "/cover/" + name, Kind: "cover", Props: props, Check: true, IsCover: true}
	e.obls = append(e.obls, o)
	e.sc.cover(o.ID, cond)
}

func shortFile(f string) string {
	if i := strings.LastIndex(f, "/"); i >= 0 {
		return f[i+1:]
	}
	return f
}

func (e *Eng) rootName() string {
	if e.rootFn == nil {
		return "?"
	}
	return fnKey(e.rootFn)
}

// fnKey: stable function key used in the contracts file: "(*Memberlist).deadNode", "pkcs7decode", "(*Memberlist).suspectNode$1"
func fnKey(fn *ssa.Function) string {
	s := fn.String()
	s = strings.ReplaceAll(s, "github.com/hashicorp/memberlist.", "")
	return s
}

// ---------- frames ----------

type edgeIn struct {
	from  *ssa.BasicBlock
	guard string
	st    *State
}

type deferred struct {
	call  *ssa.Defer
	args  []*Val
	fnv   *Val
	guard string
	block *ssa.BasicBlock
}

type retInfo struct {
	guard string
	vals  []*Val
	st    *State
}

type Frame struct {
	fn      *ssa.Function
	vals    map[ssa.Value]*Val
	guard   map[*ssa.BasicBlock]string
	in      map[*ssa.BasicBlock][]edgeIn
	defers  []deferred
	rets    []retInfo
	depth   int
	prefix  string
	fspec   *FuncSpec
	old     *State
	params  []*Val
	loopOrd map[*ssa.BasicBlock]int
	descN   map[string]int
	entryGuard string
	nonnil map[string][]*ssa.BasicBlock
	inheritedNonNil map[string]bool
	locals map[string]ssa.Value
	nameCands map[string][]ssa.Value
	curBlock *ssa.BasicBlock
	freeVals map[string]*Val
	autoBounds map[*ssa.BasicBlock]func(*State, map[*ssa.Phi]*Val, *ssa.BasicBlock, string)
	siteIns  ssa.Instruction
	up       *Frame // the frame this one is inlined into
	ownSites map[string]bool
	addrLocals map[string]ssa.Value
	siteOrds map[ssa.Instruction]int
}

func sortBlocksRPO(fn *ssa.Function) ([]*ssa.BasicBlock, map[[2]int]bool) {
	back := map[[2]int]bool{}
	for _, b := range fn.Blocks {
		for _, s := range b.Succs {
			if s.Dominates(b) {
				back[[2]int{b.Index, s.Index}] = true
			}
		}
	}
	visited := map[*ssa.BasicBlock]bool{}
	var post []*ssa.BasicBlock
	var dfs func(b *ssa.BasicBlock)
	dfs = func(b *ssa.BasicBlock) {
		visited[b] = true
		for _, s := range b.Succs {
			if back[[2]int{b.Index, s.Index}] || visited[s] {
				continue
			}
			dfs(s)
		}
		post = append(post, b)
	}
	if len(fn.Blocks) > 0 {
		dfs(fn.Blocks[0])
	}
	for i, j := 0, len(post)-1; i < j; i, j = i+1, j-1 {
		post[i], post[j] = post[j], post[i]
	}
	return post, back
}

// loopBody returns the blocks of the natural loop with header h.
func loopBody(h *ssa.BasicBlock, back map[[2]int]bool) map[*ssa.BasicBlock]bool {
	body := map[*ssa.BasicBlock]bool{h: true}
	var stack []*ssa.BasicBlock
	for _, p := range h.Preds {
		if back[[2]int{p.Index, h.Index}] {
			if !body[p] {
				body[p] = true
				stack = append(stack, p)
			}
		}
	}
	for len(stack) > 0 {
		b := stack[len(stack)-1]
		stack = stack[:len(stack)-1]
		for _, p := range b.Preds {
			if !body[p] {
				body[p] = true
				stack = append(stack, p)
			}
		}
	}
	return body
}

func (e *Eng) mergeStates(ins []edgeIn) *State {
	if len(ins) == 1 {
		return ins[0].st.clone()
	}
	out := &State{reg: map[string]string{}, held: map[string]string{}}
	keys := map[string]bool{}
	for _, in := range ins {
		for k := range in.st.reg {
			keys[k] = true
		}
	}
	ks := make([]string, 0, len(keys))
	for k := range keys {
		ks = append(ks, k)
	}
	sort.Strings(ks)
	for _, k := range ks {
		sortName := e.regionSort[k]
		var terms []string
		same := true
		for _, in := range ins {
			t := e.get(in.st, k, sortName)
			terms = append(terms, t)
			if t != terms[0] {
				same = false
			}
		}
		if same {
			out.reg[k] = terms[0]
			continue
		}
		t := terms[len(terms)-1]
		for i := len(terms) - 2; i >= 0; i-- {
			t = ite(ins[i].guard, terms[i], t)
		}
		out.reg[k] = e.sc.define("m_"+k, sortName, t, "merge")
	}
	// held locks: intersection
	for k, v := range ins[0].st.held {
		ok := true
		for _, in := range ins[1:] {
			if in.st.held[k] != v {
				ok = false
			}
		}
		if ok {
			out.held[k] = v
		}
	}
	out.monOld = ins[0].st.monOld
	for _, in := range ins {
		if in.st.monOld != nil {
			out.monOld = in.st.monOld
		}
	}
	return out
}

// selStoreChain resolves (select (store (store a i1 v1) i2 v2) idx) for literal integer indices.
func selStoreChain(arr, idx string) string {
	if !isNumLit(idx) {
		return sel(arr, idx)
	}
	cur := arr
	for i := 0; i < 32; i++ {
		if !strings.HasPrefix(cur, "(store ") {
			break
		}
		parts := splitSexp(cur[7 : len(cur)-1])
		if len(parts) != 3 || !isNumLit(parts[1]) {
			break
		}
		if parts[1] == idx {
			return parts[2]
		}
		cur = parts[0]
	}
	return sel(cur, idx)
}

func splitSexp(s string) []string {
	var out []string
	depth := 0
	start := -1
	for i := 0; i < len(s); i++ {
		c := s[i]
		switch {
		case c == '(':
			if depth == 0 && start < 0 {
				start = i
			}
			depth++
		case c == ')':
			depth--
			if depth == 0 {
				out = append(out, s[start:i+1])
				start = -1
			}
		case c == ' ':
			if depth == 0 && start >= 0 {
				out = append(out, s[start:i])
				start = -1
			}
		default:
			if depth == 0 && start < 0 {
				start = i
			}
		}
	}
	if start >= 0 {
		out = append(out, s[start:])
	}
	return out
}

// usedAsValueField: does any struct type of the package (or a type reachable from
// its fields) contain a field whose type is the struct type t (by value)?
func (e *Eng) usedAsValueField(t types.Type) bool {
	if e.valueFieldTypes == nil {
		e.valueFieldTypes = map[string]bool{}
		seen := map[string]bool{}
		var walk func(tt types.Type)
		walk = func(tt types.Type) {
			tt = types.Unalias(tt)
			k := types.TypeString(tt, nil)
			if seen[k] {
				return
			}
			seen[k] = true
			switch u := tt.Underlying().(type) {
			case *types.Struct:
				for i := 0; i < u.NumFields(); i++ {
					ft := u.Field(i).Type()
					if isStructValue(ft) {
						e.valueFieldTypes[types.TypeString(types.Unalias(ft), nil)] = true
					}
					if a, ok := types.Unalias(ft).Underlying().(*types.Array); ok && isStructValue(a.Elem()) {
						e.valueFieldTypes[types.TypeString(types.Unalias(a.Elem()), nil)] = true
					}
					walk(ft)
				}
			case *types.Pointer:
				walk(u.Elem())
			case *types.Slice:
				walk(u.Elem())
			case *types.Map:
				walk(u.Key())
				walk(u.Elem())
			case *types.Array:
				walk(u.Elem())
			case *types.Chan:
				walk(u.Elem())
			}
		}
		sc := e.ld.pkg.Types.Scope()
		for _, n := range sc.Names() {
			if tn, ok := sc.Lookup(n).(*types.TypeName); ok {
				walk(tn.Type())
			}
		}
	}
	return e.valueFieldTypes[types.TypeString(types.Unalias(t), nil)]
}

// havocRegFresh: the region may only have been written inside objects allocated at or after
// frontier frBefore; every older location keeps its value.
func (e *Eng) havocRegFresh(st *State, name, frBefore string) {
	sortName, ok := e.regionSort[name]
	if !ok {
		e.errf("havoc of unregistered region %s", name)
		return
	}
	if !(strings.HasPrefix(name, "F.") || strings.HasPrefix(name, "C.") || strings.HasPrefix(name, "E.") || strings.HasPrefix(name, "MH.") || strings.HasPrefix(name, "MV.") || strings.HasPrefix(name, "ML.") || name == "BL" || name == chanClosedRegion) {
		e.havocReg(st, name)
		return
	}
	before := e.get(st, name, sortName)
	e.havocReg(st, name)
	now := st.reg[name]
	e.sc.assume(fmt.Sprintf("(forall ((p Int)) (! (=> (< p %s) (= (select %s p) (select %s p))) :pattern ((select %s p))))", frBefore, now, before, now), "frame: only freshly allocated objects were written in "+name)
}
