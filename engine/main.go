package main

import (
	"encoding/json"
	"flag"
	"fmt"
	"os"
	"os/exec"
	"path/filepath"
	"sort"
	"strings"
	"sync"
	"time"

	"golang.org/x/tools/go/ssa"
)

type FuncResult struct {
	Key      string
	Obls     []*Obl
	Notes    []string
	Errs     []string
	Runs     []*SolverRun
	Script   *Script
	Wall     float64
	Disagree []string
}

type Options struct {
	repo      string
	verifDir  string
	tier      string
	prop      string
	perQuery  int
	keepSMT   bool
	solvers   []string
	wantModel bool
	noRetry   map[string]bool // obligations recorded as known findings: expected to stay undischarged, not worth a retry
}

func specMentions(fs *FuncSpec, sf *SpecFile, p string) bool {
	has := func(ps []string) bool {
		for _, x := range ps {
			if x == p {
				return true
			}
		}
		return false
	}
	if has(fs.Safety) || has(fs.DisciplineProps) {
		return true
	}
	for _, c := range fs.Requires {
		_ = c
	}
	for _, c := range fs.Ensures {
		if has(c.Props) {
			return true
		}
	}
	for _, cs := range fs.LoopInvs {
		for _, c := range cs {
			if has(c.Props) {
				return true
			}
		}
	}
	for _, s := range fs.Sites {
		if has(s.Clause.Props) {
			return true
		}
	}
	return false
}

// verifyRoot generates all obligations for one function under contract.
func verifyRoot(ld *Loaded, sf *SpecFile, fn *ssa.Function, fs *FuncSpec, prop string, modelIDs map[int]bool) (e *Eng) {
	e = NewEng(ld, sf)
	e.modelIDs = modelIDs
	e.sc.prelude.WriteString(goDivPrelude)
	e.rootFn = fn
	e.propSel = prop
	if fs != nil {
		e.safetyProps = fs.Safety
	}
	defer func() {
		if r := recover(); r != nil {
			e.errf("engine panic in %s: %v", fnKey(fn), r)
		}
	}()
	st := &State{reg: map[string]string{}, held: map[string]string{}}
	fr0 := e.get(st, frRegion, "Int")
	e.sc.assume(sx(">=", fr0, "1"), "initial frontier")
	e.get(st, clockRegion, "Int")
	// global axioms
	for _, ax := range sf.Axioms {
		t := e.evalClauseEnv(ax, e.newEnv(), st, st)
		e.sc.assume(t, "axiom "+ax.Label+" (trusted)")
		e.note("axiom %s assumed (trusted): %s", ax.Label, ax.Raw)
	}
	var args []*Val
	for _, p := range fn.Params {
		v := e.havocVal(st, "arg_"+p.Name(), p.Type())
		args = append(args, v)
	}
	// a closure verified on its own: its captured variables live in arbitrary (non-nil) cells
	var bindings []*Val
	fvVals := map[string]*Val{}
	for _, fv := range fn.FreeVars {
		cell := e.havocVal(st, "fvcell_"+fv.Name(), fv.Type())
		e.sc.assume(sx(">", cell.T, "0"), "captured variable cell exists")
		bindings = append(bindings, cell)
		if pt := derefType(fv.Type()); pt != nil {
			t := e.load(st, e.locOfPtr(cell))
			v := &Val{T: t, Typ: pt, KnownLen: -1}
			e.assumeWF(st, "true", v)
			fvVals[fv.Name()] = v
		}
	}
	if fs != nil {
		env := e.newEnv()
		for n, v := range fvVals {
			env.vars[n] = v
		}
		for i, p := range fn.Params {
			env.vars[p.Name()] = args[i]
			if i < len(fs.ParamNames) {
				env.vars[fs.ParamNames[i]] = args[i]
			}
		}
		for _, rq := range fs.Requires {
			t := e.evalClauseEnv(rq, env, st, st)
			e.sc.assume(t, "requires "+rq.Label)
		}
		e.cover("pre", mergeProps(fs.Safety, allProps(fs)), "true")
	}
	entry := st.clone()
	e.entryState = entry
	res, out, outG := e.execFunc(fn, args, bindings, st, "true", 0, fs, "")
	if fs != nil {
		env := e.newEnv()
		if e.rootFrame != nil {
			// locals of the root (single-assignment values and address-taken variables) are visible in postconditions
			env = e.funcEnv(e.rootFrame)
		}
		for n, v := range fvVals {
			env.vars[n] = v
		}
		for i, p := range fn.Params {
			env.vars[p.Name()] = args[i]
			if i < len(fs.ParamNames) {
				env.vars[fs.ParamNames[i]] = args[i]
			}
		}
		env.result = res
		old := entry
		if fs.Monitor != "" {
			old = e.oldView(out, entry)
			out = e.postView(out)
		}
		env = e.withLets(fs, env, out, old)
		if len(fs.Ensures) > 0 {
			e.cover("returns", allProps(fs), outG)
		}
		for _, en := range fs.Ensures {
			t := e.evalClauseEnv(en, env, out, old)
			// vacuity guard for implications
			if b, ok := en.Expr.(*EBin); ok && b.Op == "==>" {
				func() {
					defer func() { recover() }()
					ant := e.eval(b.L, env, out, old)
					e.cover("ante/"+en.Label, en.Props, and(outG, ant.T))
				}()
			}
			e.oblige("post", en.Label, en.Props, fn.Pos(), outG, t)
		}
		for _, s := range fs.Sites {
			if e.siteHits[s] == 0 {
				if s.SetGhost != "" {
					// a ghost assignment whose site disappeared leaves the ghost arbitrary: clauses that rely on it then fail on their own
					e.note("ghost assignment %s (at %s %s) matched no site in %s: the ghost variable stays arbitrary", s.Clause.Label, s.Kind, s.Callee, fs.Key)
				} else {
					// the call the clause speaks about is gone: the clause is vacuous, what the call was there for is
					// pinned down by the function's other clauses (postconditions, invariants)
					e.note("site clause %s (at %s %s) matched no site in %s: vacuous", s.Clause.Label, s.Kind, s.Callee, fs.Key)
				}
			}
		}
	}
	return e
}

func allProps(fs *FuncSpec) []string {
	seen := map[string]bool{}
	var out []string
	add := func(ps []string) {
		for _, p := range ps {
			if !seen[p] {
				seen[p] = true
				out = append(out, p)
			}
		}
	}
	add(fs.Safety)
	for _, c := range fs.Ensures {
		add(c.Props)
	}
	for _, cs := range fs.LoopInvs {
		for _, c := range cs {
			add(c.Props)
		}
	}
	for _, s := range fs.Sites {
		add(s.Clause.Props)
	}
	return out
}

func verifyLemma(ld *Loaded, sf *SpecFile, lm *LemmaDef, prop string, modelIDs map[int]bool) *Eng {
	e := NewEng(ld, sf)
	e.modelIDs = modelIDs
	e.sc.prelude.WriteString(goDivPrelude)
	e.propSel = prop
	defer func() {
		if r := recover(); r != nil {
			e.errf("engine panic in lemma %s: %v", lm.Name, r)
		}
	}()
	st := &State{reg: map[string]string{}, held: map[string]string{}}
	env := e.newEnv()
	for _, v := range lm.Vars {
		t, srt := e.specType(v.Type)
		n := e.sc.havoc("lv_"+v.Name, srt)
		val := &Val{T: n, Typ: t, Sort: srtIfNil(t, srt), KnownLen: -1}
		env.vars[v.Name] = val
		e.assumeWF(st, "true", val)
	}
	for _, ax := range sf.Axioms {
		e.sc.assume(e.evalClauseEnv(ax, e.newEnv(), st, st), "axiom "+ax.Label)
		e.note("axiom %s assumed (trusted): %s", ax.Label, ax.Raw)
	}
	for i, h := range lm.Hyps {
		c := &Clause{Label: fmt.Sprintf("hyp%d", i), Expr: h, Line: lm.Line}
		e.sc.assume(e.evalClauseEnv(c, env, st, st), "lemma hypothesis")
	}
	e.cover("hyps", lm.Props, "true")
	c := &Clause{Label: "concl", Expr: lm.Concl, Props: lm.Props, Line: lm.Line}
	t := e.evalClauseEnv(c, env, st, st)
	e.oblige("lemma", lm.Name, lm.Props, 0, "true", t)
	return e
}

func (e *Eng) rootNameOr(s string) string {
	if e.rootFn != nil {
		return fnKey(e.rootFn)
	}
	return s
}

func runAll(ld *Loaded, sf *SpecFile, opt *Options, only string) []*FuncResult {
	type job struct {
		key string
		fn  *ssa.Function
		fs  *FuncSpec
		lm  *LemmaDef
		prelude bool
	}
	var jobs []job
	if only == "prelude:sumlens" || (only == "" && (opt.prop == "" || opt.prop == "C10" || opt.prop == "C11")) {
		jobs = append(jobs, job{key: "prelude:sumlens", prelude: true})
	}
	for _, k := range sortedKeys(sf.Funcs) {
		fs := sf.Funcs[k]
		if only != "" && k != only {
			continue
		}
		if fs.Trusted || fs.InlineOnly {
			continue
		}
		if opt.prop != "" && only == "" && !specMentions(fs, sf, opt.prop) {
			// monitor functions also carry the lock invariants of their lock
			sel := false
			if fs.Monitor != "" || true {
				for lk, ls := range sf.Locks {
					_ = lk
					for _, inv := range ls.Invs {
						for _, p := range inv.Props {
							if p == opt.prop && fnUsesLock(ld, k, ls.Key) {
								sel = true
							}
						}
					}
				}
			}
			if !sel {
				continue
			}
		}
		fn := ld.funcs[k]
		jobs = append(jobs, job{key: k, fn: fn, fs: fs})
	}
	for _, lm := range sf.Lemmas {
		if only != "" && "lemma:"+lm.Name != only {
			continue
		}
		if opt.prop != "" && only == "" {
			ok := false
			for _, p := range lm.Props {
				if p == opt.prop {
					ok = true
				}
			}
			if !ok {
				continue
			}
		}
		jobs = append(jobs, job{key: "lemma:" + lm.Name, lm: lm})
	}
	results := make([]*FuncResult, len(jobs))
	var wg sync.WaitGroup
	genSem := make(chan struct{}, 8)
	smtDir := filepath.Join(os.TempDir(), fmt.Sprintf("gvc-%d", os.Getpid()))
	for i, j := range jobs {
		wg.Add(1)
		go func(i int, j job) {
			defer wg.Done()
			start := time.Now()
			fr := &FuncResult{Key: j.key}
			results[i] = fr
			var e *Eng
			genSem <- struct{}{}
			if j.prelude {
				e = verifyPreludeLemmas(ld, sf, opt.prop)
			} else if j.lm != nil {
				e = verifyLemma(ld, sf, j.lm, opt.prop, nil)
			} else if j.fn == nil {
				fr.Errs = append(fr.Errs, fmt.Sprintf("contract target %s not found in package (renamed or removed?)", j.key))
				<-genSem
				return
			} else {
				e = verifyRoot(ld, sf, j.fn, j.fs, opt.prop, nil)
			}
			<-genSem
			fr.Obls = e.obls
			fr.Notes = sortedKeys(e.notes)
			fr.Errs = e.errs
			fr.Script = e.sc
			nCheck := 0
			for _, o := range e.obls {
				if o.Check {
					nCheck++
				}
			}
			if nCheck > 0 && len(e.errs) == 0 {
				// first pass with a quarter of the per-query budget: what one solver cannot do quickly another usually
				// can, and waiting out full timeouts in sequence is what makes big functions slow
				first := opt.perQuery / 4
				if first < 2000 {
					first = 2000
				}
				fr.Runs = solveScript(smtDir, j.key, e.sc, first, time.Duration(first)*time.Millisecond*time.Duration(nCheck+5)+60*time.Second, opt.solvers, e.obls)
				fr.Disagree = combine(e.obls, fr.Runs)
				// second pass: models for failed obligations
				var failed []int
				for _, o := range e.obls {
					if o.Check && !o.IsCover && o.Result == "sat" {
						failed = append(failed, o.ID)
					}
				}
				if len(failed) > 0 && opt.wantModel && !j.prelude {
					getModels(ld, sf, j.fn, j.fs, j.lm, opt, smtDir, e.obls, failed)
				}
			}
			fr.Wall = time.Since(start).Seconds()
		}(i, j)
	}
	wg.Wait()
	// Obligations left undecided (unknown / timeout, not sat) are tried once more with the machine to themselves and
	// three times the per-query budget: a loaded machine must not turn into an alarm.
	retried := 0
	for pass := 0; pass < 2; pass++ {
		budget := opt.perQuery
		if pass == 1 {
			budget = opt.perQuery * 3
		}
		for _, fr := range results {
			if fr == nil || fr.Script == nil || len(fr.Errs) > 0 || (pass == 1 && retried >= 8) {
				continue
			}
			var again []*Obl
			undecided := false
			for _, o := range fr.Obls {
				if o.Check && !o.IsCover {
					again = append(again, o)
					if o.Result != "unsat" && o.Result != "sat" && !opt.noRetry[o.Name] {
						undecided = true
					}
				}
			}
			if !undecided {
				continue
			}
			if pass == 1 {
				retried++
			}
			runs := solveScript(smtDir, fmt.Sprintf("%s_retry%d", fr.Key, pass), fr.Script, budget, time.Duration(budget)*time.Millisecond*time.Duration(len(again)+5)+60*time.Second, opt.solvers, again)
			fr.Runs = append(fr.Runs, runs...)
			fr.Disagree = combine(fr.Obls, fr.Runs)
			if pass == 1 {
				fr.Notes = append(fr.Notes, "undecided obligations were retried alone with a threefold time budget")
			}
		}
	}
	if !opt.keepSMT {
		os.RemoveAll(smtDir)
	} else {
		fmt.Fprintf(os.Stderr, "SMT scripts kept in %s\n", smtDir)
	}
	return results
}

// getModels regenerates the script asking for a model at the failed obligations only.
func getModels(ld *Loaded, sf *SpecFile, fn *ssa.Function, fs *FuncSpec, lm *LemmaDef, opt *Options, dir string, obls []*Obl, failed []int) {
	want := map[int]bool{}
	for _, id := range failed {
		want[id] = true
	}
	var e *Eng
	if lm != nil {
		e = verifyLemma(ld, sf, lm, opt.prop, want)
	} else {
		e = verifyRoot(ld, sf, fn, fs, opt.prop, want)
	}
	runs := solveScript(dir, "model_"+e.rootNameOr("lemma"), e.sc, opt.perQuery, 120*time.Second, []string{"z3-5", "z3-4"}, nil)
	for _, r := range runs {
		for id, m := range r.Models {
			if id < len(obls) && obls[id].Model == "" && r.Results[id] == "sat" {
				obls[id].Model = m
			}
		}
	}
}

func fnUsesLock(ld *Loaded, fnK string, lockKey string) bool {
	fn := ld.funcs[fnK]
	if fn == nil {
		return false
	}
	parts := strings.SplitN(lockKey, ".", 2)
	if len(parts) != 2 {
		return false
	}
	for _, b := range fn.Blocks {
		for _, ins := range b.Instrs {
			if fa, ok := ins.(*ssa.FieldAddr); ok {
				st := structOf(derefType(fa.X.Type()))
				if st != nil && st.Field(fa.Field).Name() == parts[1] {
					return true
				}
			}
		}
	}
	return false
}

func main() {
	if len(os.Args) < 2 {
		fmt.Fprintln(os.Stderr, "usage: gvc check <Cxx> | func <key> | list")
		os.Exit(2)
	}
	cmd := os.Args[1]
	fl := flag.NewFlagSet(cmd, flag.ExitOnError)
	repo := fl.String("repo", "/repo", "repository root")
	vdir := fl.String("verif", "/verif", "verif dir")
	tier := fl.String("tier", envOr("VERIF_TIER", "quick"), "quick|thorough")
	prop := fl.String("prop", "", "property selector")
	keep := fl.Bool("keep", false, "keep SMT files")
	dump := fl.String("dump", "", "write the SMT script of the function here")
	timeout := fl.Int("t", 0, "per-query timeout ms")
	solversF := fl.String("solvers", "", "comma list of solver name prefixes")
	verbose := fl.Bool("v", false, "verbose")
	only := fl.String("only", "", "check only obligations whose name contains this substring (debug)")
	var pos []string
	rest := os.Args[2:]
	for len(rest) > 0 && !strings.HasPrefix(rest[0], "-") {
		pos = append(pos, rest[0])
		rest = rest[1:]
	}
	fl.Parse(rest)
	pos = append(pos, fl.Args()...)
	onlyFilter = *only
	opt := &Options{repo: *repo, verifDir: *vdir, tier: *tier, prop: *prop, keepSMT: *keep, wantModel: true}
	if *solversF != "" {
		opt.solvers = strings.Split(*solversF, ",")
	}
	opt.perQuery = 10000
	if opt.tier == "thorough" {
		opt.perQuery = 60000
	}
	if *timeout > 0 {
		opt.perQuery = *timeout
	}
	start := time.Now()
	switch cmd {
	case "check":
		if len(pos) != 1 {
			fmt.Fprintln(os.Stderr, "usage: gvc check <Cxx> [-tier quick|thorough]")
			os.Exit(2)
		}
		opt.prop = pos[0]
		os.Exit(checkProperty(opt, start))
	case "func":
		ld, sf := mustLoad(opt)
		results := runAll(ld, sf, opt, pos[0])
		for _, r := range results {
			printResult(r, *verbose || true)
			if *dump != "" && r.Script != nil {
				os.WriteFile(*dump, []byte(r.Script.Text("")), 0o644)
			}
		}
	case "replay":
		if len(pos) != 1 {
			fmt.Fprintln(os.Stderr, "usage: gvc replay <replay.json>")
			os.Exit(2)
		}
		os.Exit(replayFile(opt, pos[0]))
	case "list":
		ld, sf := mustLoad(opt)
		for _, k := range sortedKeys(sf.Funcs) {
			_, ok := ld.funcs[k]
			fmt.Printf("%-50s found=%v props=%v\n", k, ok, allProps(sf.Funcs[k]))
		}
	case "uncovered":
		// functions of the package that are neither under contract nor inlined (statically called, through callees
		// without a contract, within the inlining depth) into a function under contract
		ld, sf := mustLoad(opt)
		seen := map[*ssa.Function]bool{}
		var visit func(fn *ssa.Function, depth int)
		visit = func(fn *ssa.Function, depth int) {
			if fn == nil || fn.Blocks == nil || depth > 5 {
				return
			}
			seen[fn] = true
			for _, b := range fn.Blocks {
				for _, ins := range b.Instrs {
					if mc, ok := ins.(*ssa.MakeClosure); ok {
						if f, ok := mc.Fn.(*ssa.Function); ok && !seen[f] && sf.Funcs[fnKey(f)] == nil {
							visit(f, depth+1)
						}
					}
					ci, ok := ins.(ssa.CallInstruction)
					if !ok {
						continue
					}
					if f := ci.Common().StaticCallee(); f != nil && !seen[f] {
						if _, in := ld.funcs[fnKey(f)]; in && sf.Funcs[fnKey(f)] == nil {
							visit(f, depth+1)
						}
					}
				}
			}
		}
		for k := range sf.Funcs {
			if fn := ld.funcs[k]; fn != nil {
				visit(fn, 0)
			}
		}
		for _, k := range sortedKeys(ld.funcs) {
			fn := ld.funcs[k]
			if fn.Blocks == nil || seen[fn] || fn.Synthetic != "" {
				continue
			}
			n := 0
			for _, b := range fn.Blocks {
				n += len(b.Instrs)
			}
			fmt.Printf("%-60s %4d instrs  %s\n", k, n, shortFile(ld.fset.Position(fn.Pos()).Filename))
		}
	case "locks":
		// the lock-discipline obligations (C20) on their own
		ld, sf := mustLoad(opt)
		bad := 0
		for _, so := range lockDiscipline(ld, sf) {
			st := "ok  "
			if !so.OK {
				st = "FAIL"
				bad++
			}
			fmt.Printf("%s %s\n     %s\n", st, so.Name, so.Detail)
		}
		fmt.Printf("%d failed\n", bad)
	case "mods":
		// debugging aid: the static write set of a function and of each of its direct callees
		ld, sf := mustLoad(opt)
		e := NewEng(ld, sf)
		fn := ld.funcs[pos[0]]
		if fn == nil {
			fmt.Fprintln(os.Stderr, "no such function")
			os.Exit(2)
		}
		show := func(f *ssa.Function) {
			m := e.modSet(f)
			var parts []string
			for _, r := range sortedKeys(m) {
				if g := e.modGeneral[f]; g != nil && g[r] {
					parts = append(parts, r)
				} else {
					parts = append(parts, r+"(fresh)")
				}
			}
			fmt.Printf("%s: %s\n", fnKey(f), strings.Join(parts, " "))
		}
		show(fn)
		seen := map[*ssa.Function]bool{}
		for _, b := range fn.Blocks {
			for _, ins := range b.Instrs {
				if c, ok := ins.(ssa.CallInstruction); ok {
					if f := c.Common().StaticCallee(); f != nil && len(f.Blocks) > 0 && !seen[f] {
						seen[f] = true
						fmt.Print("  ")
						show(f)
					}
				}
			}
		}
	case "funcs":
		ld, _ := mustLoad(opt)
		for _, k := range sortedKeys(ld.funcs) {
			fmt.Println(k)
		}
	default:
		fmt.Fprintln(os.Stderr, "unknown command", cmd)
		os.Exit(2)
	}
}

func envOr(k, d string) string {
	if v := os.Getenv(k); v != "" {
		return v
	}
	return d
}

func mustLoad(opt *Options) (*Loaded, *SpecFile) {
	ld, err := Load(opt.repo)
	if err != nil {
		fmt.Printf("ERROR: cannot load %s: %v\n", opt.repo, err)
		os.Exit(2)
	}
	sf, err := ParseSpecFile(filepath.Join(opt.repo, "verif_contracts.go"))
	if err != nil {
		fmt.Printf("ERROR: contracts: %v\n", err)
		os.Exit(2)
	}
	return ld, sf
}

func printResult(r *FuncResult, verbose bool) {
	fmt.Printf("== %s  (%.1fs)\n", r.Key, r.Wall)
	for _, e := range r.Errs {
		fmt.Printf("   ERROR %s\n", e)
	}
	for _, d := range r.Disagree {
		fmt.Printf("   DISAGREE %s\n", d)
	}
	for _, o := range r.Obls {
		if !o.Check {
			continue
		}
		mark := "ok  "
		if o.IsCover {
			if o.Result != "sat" {
				mark = "COV?"
			} else {
				mark = "cov "
			}
		} else if o.Result != "unsat" {
			mark = "FAIL"
		}
		if verbose || mark == "FAIL" || mark == "COV?" {
			fmt.Printf("   %s %-8s %-7s %5.2fs %s  %s\n", mark, o.Result, shortSolver(o.Solver), o.Time, o.Name, o.Pos)
		}
	}
	for _, run := range r.Runs {
		if verbose {
			fmt.Printf("   solver %s: %d answers in %.1fs\n", run.Name, len(run.Results), run.Total)
		}
		if run.Err != "" {
			fmt.Printf("   solver %s: %s\n", run.Name, truncStr(run.Err, 300))
		}
	}
	if verbose {
		for _, n := range r.Notes {
			fmt.Printf("   note: %s\n", n)
		}
	}
}

func shortSolver(s string) string {
	if i := strings.Index(s, "-"); i > 0 && len(s) > 6 {
		return s[:i+2]
	}
	return s
}

// ---------------------------------------------------------------------
// property check: evidence, known findings, exit codes
// ---------------------------------------------------------------------

type KnownFinding struct {
	Property   string `json:"property"`
	Obligation string `json:"obligation"`
	What       string `json:"what"`
	Status     string `json:"status"` // known | fixed:<commit>
}

func loadKnown(dir string) []KnownFinding {
	var kf struct {
		Findings []KnownFinding `json:"findings"`
	}
	data, err := os.ReadFile(filepath.Join(dir, "known_findings.json"))
	if err != nil {
		return nil
	}
	json.Unmarshal(data, &kf)
	return kf.Findings
}

func checkProperty(opt *Options, start time.Time) int {
	ld, err := Load(opt.repo)
	if err != nil {
		fmt.Printf("ERROR: repository does not load/build: %v\n", err)
		return 2
	}
	sf, err := ParseSpecFile(filepath.Join(opt.repo, "verif_contracts.go"))
	if err != nil {
		fmt.Printf("ERROR: contracts file: %v\n", err)
		return 2
	}
	known := loadKnown(opt.verifDir)
	opt.noRetry = map[string]bool{}
	for _, k := range known {
		if k.Status == "known" {
			opt.noRetry[k.Obligation] = true
		}
	}
	results := runAll(ld, sf, opt, "")
	structTier, structVerifDir = opt.tier, opt.verifDir
	if _, err := os.Stat(filepath.Join(structVerifDir, "lemmas")); err != nil {
		structVerifDir = "/verif"
	}
	structural := runStructural(ld, sf, opt.prop)
	total, discharged := 0, 0
	var failed []*Obl
	var errors []string
	var samples []map[string]interface{}
	perBackend := map[string]map[string]float64{}
	var funcs []string
	notes := map[string]bool{}
	covers, coversOK, coversUnk := 0, 0, 0
	nSample := map[int]int{}
	type slow struct {
		n string
		t float64
		s string
	}
	var slows []slow
	for _, r := range results {
		funcs = append(funcs, r.Key)
		for _, e := range r.Errs {
			errors = append(errors, r.Key+": "+e)
		}
		for _, d := range r.Disagree {
			errors = append(errors, "solver disagreement: "+d)
		}
		for _, n := range r.Notes {
			notes[n] = true
		}
		nCheck := 0
		for _, o := range r.Obls {
			if o.Check && o.Kind == "shape" && o.Result != "unsat" {
				r.Errs = append(r.Errs, fmt.Sprintf("%s is not discharged: the loop no longer has the shape its invariants were written for (contract and code out of step; undecided)", o.Name))
				errors = append(errors, r.Key+": "+r.Errs[len(r.Errs)-1])
			}
		}
		if len(r.Errs) > 0 {
			// the function could not be translated / its contract could not be evaluated: undecided, not violated
			continue
		}
		for _, o := range r.Obls {
			if !o.Check {
				continue
			}
			nCheck++
			if o.IsCover {
				covers++
				if o.Result == "sat" {
					coversOK++
				} else if o.Result == "unknown" || o.Result == "timeout" {
					coversUnk++
				} else if o.Result == "unsat" {
					if i := strings.Index(o.Name, "/cover/after/"); i >= 0 {
						// a dead block stays dead; only reachable-before, unreachable-after is a contradiction
						sib := o.Name[:i] + "/cover/reach/" + o.Name[i+len("/cover/after/"):]
						dead := false
						for _, o2 := range r.Obls {
							if o2.Name == sib && o2.Result == "unsat" {
								dead = true
							}
						}
						if !dead {
							errors = append(errors, "vacuity: the contract assumed at "+o.Name+" contradicts what is known at the call")
						}
					} else if !strings.Contains(o.Name, "/cover/reach/") {
						errors = append(errors, "vacuity: "+o.Name+" is unreachable (contradictory precondition / antecedent)")
					}
				}
				continue
			}
			total++
			if o.Result == "unsat" {
				discharged++
				pb := perBackend[o.Solver]
				if pb == nil {
					pb = map[string]float64{}
					perBackend[o.Solver] = pb
				}
				pb["count"]++
				pb["seconds"] += o.Time
				slows = append(slows, slow{o.Name, o.Time, o.Solver})
				// samples: the contract-level obligations first (postconditions, invariants, site clauses), then safety
				prio := map[string]int{"post": 0, "lockinv": 0, "site": 0, "loop-step": 1, "iter-step": 1, "lemma": 0, "site-lemma": 1, "pre": 2}
				pr, ok := prio[o.Kind]
				if !ok {
					pr = 3
				}
				if nSample[pr] < 6 {
					nSample[pr]++
					samples = append(samples, map[string]interface{}{"obligation": o.Name, "kind": o.Kind, "at": o.Pos, "result": "discharged", "solver": o.Solver, "seconds": round3(o.Time), "formula": trunc(o.Phi, 400)})
				}
			} else {
				failed = append(failed, o)
			}
		}
		if nCheck == 0 && len(r.Errs) == 0 {
			if fs := sf.Funcs[r.Key]; fs != nil && !specMentions(fs, sf, opt.prop) {
				// selected only because it touches a lock whose invariant serves the property, but it never
				// releases the write lock: nothing to prove here
				funcs = funcs[:len(funcs)-1]
				continue
			}
			errors = append(errors, r.Key+": selected for "+opt.prop+" but generated no obligation for it (vacuity guard)")
		}
	}
	for _, so := range structural {
		total++
		if so.OK {
			discharged++
			if len(samples) < 16 {
				samples = append(samples, map[string]interface{}{"obligation": so.Name, "kind": "structural", "result": "discharged", "solver": "ssa-scan", "detail": so.Detail})
			}
		} else {
			failed = append(failed, &Obl{Name: so.Name, Kind: "structural", Result: "structural-fail", Model: so.Detail})
		}
	}
	if len(results) == 0 && len(structural) == 0 {
		errors = append(errors, "no function under contract mentions "+opt.prop)
	}
	sort.Slice(slows, func(i, j int) bool { return slows[i].t > slows[j].t })
	var slowest []map[string]interface{}
	for i := 0; i < len(slows) && i < 5; i++ {
		slowest = append(slowest, map[string]interface{}{"obligation": slows[i].n, "seconds": round3(slows[i].t), "solver": slows[i].s})
	}
	// classify failures
	violations := 0
	var knownHit []string
	exit := 0
	replayDir := filepath.Join(opt.verifDir, "replays", opt.prop)
	for _, o := range failed {
		isKnown := false
		for _, k := range known {
			if k.Property == opt.prop && k.Obligation == o.Name && k.Status == "known" {
				isKnown = true
				fmt.Printf("KNOWN-FINDING: property=%s %s — %s\n", opt.prop, o.Name, k.What)
				knownHit = append(knownHit, o.Name)
			}
		}
		if isKnown {
			total-- // a recorded finding is reported, not counted among the obligations claimed discharged
			continue
		}
		violations++
		os.MkdirAll(replayDir, 0o755)
		path := filepath.Join(replayDir, sanitize(o.Name)+".json")
		rep := map[string]interface{}{"property": opt.prop, "obligation": o.Name, "kind": o.Kind, "at": o.Pos, "result": o.Result, "solver": o.Solver, "model": o.Model, "formula": o.Phi}
		suffix := ""
		replayed := tryReplay(opt, ld, sf, o, rep)
		if !replayed {
			suffix = " no-failing-input-found"
		}
		data, _ := json.MarshalIndent(rep, "", " ")
		os.WriteFile(path, data, 0o644)
		fmt.Printf("VIOLATION property=%s replay=%s obligation=%s result=%s%s\n", opt.prop, path, o.Name, o.Result, suffix)
		exit = 1
	}
	if len(errors) > 0 {
		for _, e := range errors {
			fmt.Printf("ERROR: %s\n", e)
		}
		if exit == 0 {
			exit = 2
		}
	}
	// evidence
	var assumptions []string
	assumptions = append(assumptions, trustedBase...)
	for _, n := range sortedKeys(notesToMap(notes)) {
		assumptions = append(assumptions, n)
	}
	ev := map[string]interface{}{
		"property_id": opt.prop,
		"tier":        opt.tier,
		"seed":        seedFromEnv(),
		"level":       "proof",
		"coverage": map[string]interface{}{
			"obligations":              total,
			"discharged":               discharged,
			"checker_cmd":              fmt.Sprintf("bin/gvc check %s -tier %s  (VCs generated from go/ssa of %s, discharged by racing z3 4.8.12 / z3 5.1.0 / cvc5 1.0; per-query timeout %d ms)", opt.prop, opt.tier, opt.repo, opt.perQuery),
			"trusted_base":             trustedBase,
			"samples":                  samples,
			"functions_under_contract": funcs,
			"per_backend":              perBackend,
			"slowest":                  slowest,
			"structural_obligations":   structSummary(structural),
			"vacuity_covers":           map[string]int{"checked": covers, "reachable_sat": coversOK, "not_refuted_unknown": coversUnk},
			"known_findings_hit":       knownHit,
			"undischarged":             failedNames(failed),
			"engine_errors":            errors,
		},
		"assumptions": assumptions,
		"wall_s":      round3(time.Since(start).Seconds()),
		"violations":  violations,
	}
	if opt.tier == "thorough" && os.Getenv("GVC_NO_SELFTEST") == "" && exit == 0 {
		// sensitivity: every seeded property-breaking change kept for this property must make this very check fail
		st := mutationSelftest(opt)
		ev["coverage"].(map[string]interface{})["mutation_selftest"] = st
		ev["wall_s"] = round3(time.Since(start).Seconds())
	}
	os.MkdirAll(filepath.Join(opt.verifDir, "evidence"), 0o755)
	data, _ := json.MarshalIndent(ev, "", " ")
	os.WriteFile(filepath.Join(opt.verifDir, "evidence", opt.prop+".json"), data, 0o644)
	fmt.Printf("%s: %d/%d obligations discharged over %d functions, %d covers reachable of %d, %d known findings, %d violations, %.1fs\n",
		opt.prop, discharged, total, len(funcs), coversOK, covers, len(knownHit), violations, time.Since(start).Seconds())
	return exit
}

func notesToMap(m map[string]bool) map[string]bool { return m }

func failedNames(f []*Obl) []string {
	var out []string
	for _, o := range f {
		out = append(out, o.Name+" ["+o.Result+"]")
	}
	return out
}

func round3(f float64) float64 { return float64(int(f*1000+0.5)) / 1000 }

func seedFromEnv() int {
	var s int
	fmt.Sscanf(os.Getenv("VERIF_SEED"), "%d", &s)
	return s
}

var trustedBase = []string{
	"gvc itself: the SSA->SMT translation in /verif/engine (memory model, guards, loop cutting, call rule)",
	"golang.org/x/tools go/ssa + go/types (v0.50.0) and the Go 1.26.8 front end",
	"SMT solvers z3 4.8.12, z3 5.1.0, cvc5 1.0 (an obligation counts as discharged when one of them answers unsat and none answers sat)",
	"externals table /verif/engine/externs.go: sync, sync/atomic (with rely conditions from the contracts file), time (non-decreasing ghost clock), bytes.Equal, math.Log* (uninterpreted monotone), encoding/binary, fmt/log/metrics as no-ops, math/rand.Shuffle (calls its swap function with indices inside [0,n) only), cipher.AEAD (Seal adds 16 bytes, Open removes them and may overwrite a non-nil dst even when it fails), net.ParseCIDR (a network unless an error)",
	"integers are mathematical with Go range assumptions; unsigned arithmetic wraps exactly; signed overflow is checked only in functions marked `arith checked`; floats are reals",
	"sequential consistency; reads of lock-protected state outside the lock see some invariant-satisfying state; goroutine spawns, channel traffic and select are abstracted (listed per function)",
	"user delegates honour their interface contracts in the contracts file (no re-entry, no mutation of memberlist state)",
	"github.com/google/btree is modelled (engine/btree.go) as a finite set of items ordered by the pure btreeLess of the contracts file: ReplaceOrInsert/Delete by key equality, Min/Max extremal, Ascend*/Descend* call back once per item of the range, in the order of btreeLess, unless stopped, nil receiver panics",
	"lock levels (C20): held-lock sets come from a may-analysis over the SSA control-flow graph, callees from summaries over static calls, in-package interface implementations and function values resolved by signature; a mutex is identified by the struct field it lives in; user delegates are assumed not to block or re-enter",
	"prelude lemmas about the sum-of-lengths spec function sumlens (non-negativity, split, frame under store, extensionality, element bound): base case and inductive step of each are discharged by the solvers from instances of the three defining axioms (obligations prelude:sumlens/lemma/*); the induction principle of the naturals is applied outside the solver",
}

// mutationSelftest applies each change under <verif>/seeded/<prop>* to a scratch copy of the repository and runs the
// quick check of the property on it (as a subprocess, with a scratch verif directory so that evidence and replays of
// the real tree are not touched). The copies are removed afterwards. Results are reported, they do not change the exit code.
func mutationSelftest(opt *Options) []map[string]interface{} {
	var out []map[string]interface{}
	dirs, _ := filepath.Glob(filepath.Join(opt.verifDir, "seeded", opt.prop+"*"))
	sort.Strings(dirs)
	self, err := os.Executable()
	if err != nil {
		return out
	}
	for _, d := range dirs {
		id := filepath.Base(d)
		patch := filepath.Join(d, "patch.diff")
		if _, err := os.Stat(filepath.Join(d, "patch.rebased.diff")); err == nil {
			patch = filepath.Join(d, "patch.rebased.diff")
		}
		rec := map[string]interface{}{"seed": id, "patch": filepath.Base(patch)}
		tmp, err := os.MkdirTemp("", "gvc-mut-")
		if err != nil {
			continue
		}
		repoCopy := filepath.Join(tmp, "repo")
		vcopy := filepath.Join(tmp, "verif")
		os.MkdirAll(vcopy, 0o755)
		if b, err := os.ReadFile(filepath.Join(opt.verifDir, "known_findings.json")); err == nil {
			os.WriteFile(filepath.Join(vcopy, "known_findings.json"), b, 0o644)
		}
		cp := exec.Command("rsync", "-a", "--exclude", ".git", opt.repo+"/", repoCopy+"/")
		if o, err := cp.CombinedOutput(); err != nil {
			rec["result"] = "copy failed: " + string(o)
			out = append(out, rec)
			os.RemoveAll(tmp)
			continue
		}
		ap := exec.Command("git", "apply", patch)
		ap.Dir = repoCopy
		if o, err := ap.CombinedOutput(); err != nil {
			rec["result"] = "patch does not apply to the current tree: " + strings.TrimSpace(string(o))
			out = append(out, rec)
			os.RemoveAll(tmp)
			continue
		}
		run := exec.Command(self, "check", opt.prop, "-tier", "quick", "-repo", repoCopy, "-verif", vcopy)
		run.Env = append(os.Environ(), "GVC_NO_SELFTEST=1")
		o, _ := run.CombinedOutput()
		code := run.ProcessState.ExitCode()
		var viol []string
		for _, l := range strings.Split(string(o), "\n") {
			if strings.HasPrefix(l, "VIOLATION") {
				if i := strings.Index(l, "obligation="); i >= 0 {
					f := strings.Fields(l[i+len("obligation="):])
					if len(f) > 0 && len(viol) < 4 {
						viol = append(viol, f[0])
					}
				}
			}
		}
		rec["exit"] = code
		rec["caught"] = code == 1
		rec["failed_obligations"] = viol
		if code != 1 {
			fmt.Printf("SENSITIVITY: seeded change %s is not detected by check %s (exit %d)\n", id, opt.prop, code)
		}
		out = append(out, rec)
		os.RemoveAll(tmp)
	}
	return out
}

func trunc(s string, n int) string {
	if len(s) > n {
		return s[:n] + "..."
	}
	return s
}

// structSummary: the obligations that are decided by a scan of the SSA (or by Lean) rather than by an SMT query.
func structSummary(so []StructObl) []map[string]interface{} {
	var out []map[string]interface{}
	for i, o := range so {
		if i >= 150 {
			break
		}
		out = append(out, map[string]interface{}{"obligation": o.Name, "ok": o.OK, "detail": trunc(o.Detail, 240)})
	}
	return out
}
