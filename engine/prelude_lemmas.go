package main

// The sum-of-lengths spec function sumlens(a, o, k) = sum over j in [0,k) of max(0, len(a[o+j])), its three defining
// axioms, the five lemmas the prelude hands to the solver, and the machine-checked induction proofs of those lemmas.
//
// The solver does not do induction on its own: each lemma is proved here as base case + inductive step (+ the k < 0
// case where the lemma speaks about it), each a closed quantifier-light formula over fresh constants that uses only
// *instances* of the defining axioms. The step from "base and step hold for arbitrary constants" to "for all k >= 0" is
// the induction principle of the naturals, applied outside the solver.

import (
	"fmt"
	"strings"
)

func slD0(a, o string) string { return fmt.Sprintf("(= (sumlens %s %s 0) 0)", a, o) }
func slTerm(a, o, k string) string {
	return fmt.Sprintf("(ite (>= (s_len (select %s (at %s %s))) 0) (s_len (select %s (at %s %s))) 0)", a, o, k, a, o, k)
}
func slD1(a, o, k string) string {
	return fmt.Sprintf("(=> (>= %s 0) (= (sumlens %s %s (+ %s 1)) (+ (sumlens %s %s %s) %s)))", k, a, o, k, a, o, k, slTerm(a, o, k))
}
func slD2(a, o, k string) string { return fmt.Sprintf("(=> (< %s 0) (= (sumlens %s %s %s) 0))", k, a, o, k) }

// the lemmas, as functions of the terms they are stated over
func slL1(a, o, k string) string { return fmt.Sprintf("(=> (>= %s 0) (>= (sumlens %s %s %s) 0))", k, a, o, k) }
func slH(a, b, o, p, k string) string {
	return fmt.Sprintf("(forall ((j Int)) (=> (and (<= 0 j) (< j %s)) (= (s_len (select %s (at %s j))) (s_len (select %s (at %s j))))))", k, a, o, b, p)
}
func slL2(a, b, o, p, k string) string {
	return fmt.Sprintf("(=> %s (= (sumlens %s %s %s) (sumlens %s %s %s)))", slH(a, b, o, p, k), a, o, k, b, p, k)
}
func slL3(a, i, v, o, k string) string {
	return fmt.Sprintf("(=> (or (< %s %s) (>= %s (+ %s %s))) (= (sumlens (store %s %s %s) %s %s) (sumlens %s %s %s)))", i, o, i, o, k, a, i, v, o, k, a, o, k)
}
func slL4(a, o, k, i string) string {
	return fmt.Sprintf("(=> (and (<= 0 %s) (< %s %s)) (<= (s_len (select %s (at %s %s))) (sumlens %s %s %s)))", i, i, k, a, o, i, a, o, k)
}
func slL5(a, o, n, p, k string) string {
	return fmt.Sprintf("(=> (and (<= %s %s) (>= %s 0) (= (+ (- %s %s) %s) %s)) (= (sumlens %s %s %s) (+ (sumlens %s %s (- %s %s)) (sumlens %s %s %s))))", o, p, k, p, o, k, n, a, o, n, a, o, p, o, a, p, k)
}

func sumlensPrelude() string {
	var b strings.Builder
	A, A2 := "(a (Array Int Slice))", "(b (Array Int Slice))"
	b.WriteString("(declare-fun sumlens ((Array Int Slice) Int Int) Int)\n")
	// definition
	fmt.Fprintf(&b, "(assert (forall (%s (o Int)) (! %s :pattern ((sumlens a o 0)))))\n", A, slD0("a", "o"))
	fmt.Fprintf(&b, "(assert (forall (%s (o Int) (k Int)) (! %s :pattern ((sumlens a o k) (select a (at o k))))))\n", A, slD1("a", "o", "k"))
	fmt.Fprintf(&b, "(assert (forall (%s (o Int) (k Int)) (! %s :pattern ((sumlens a o k)))))\n", A, slD2("a", "o", "k"))
	// lemmas (proved below)
	fmt.Fprintf(&b, "(assert (forall (%s (o Int) (k Int)) (! %s :pattern ((sumlens a o k)))))\n", A, slL1("a", "o", "k"))
	fmt.Fprintf(&b, "(assert (forall (%s %s (o Int) (p Int) (k Int)) (! %s :pattern ((sumlens a o k) (sumlens b p k)))))\n", A, A2, slL2("a", "b", "o", "p", "k"))
	fmt.Fprintf(&b, "(assert (forall (%s (i Int) (v Slice) (o Int) (k Int)) (! %s :pattern ((sumlens (store a i v) o k)))))\n", A, slL3("a", "i", "v", "o", "k"))
	fmt.Fprintf(&b, "(assert (forall (%s (o Int) (k Int) (i Int)) (! %s :pattern ((sumlens a o k) (select a (at o i))))))\n", A, slL4("a", "o", "k", "i"))
	fmt.Fprintf(&b, "(assert (forall (%s (o Int) (n Int) (p Int) (k Int)) (! %s :pattern ((sumlens a o n) (sumlens a p k)))))\n", A, slL5("a", "o", "n", "p", "k"))
	return b.String()
}

// verifyPreludeLemmas: the induction proofs, as obligations of a script whose prelude contains the declarations and the
// definition of `at` only (not the lemmas, and the definition of sumlens only through the instances named in each step).
func verifyPreludeLemmas(ld *Loaded, sf *SpecFile, prop string) *Eng {
	e := &Eng{ld: ld, spec: sf, sc: NewScript(), regionSort: map[string]string{}, subIdx: map[string]int{}, typeIDs: map[string]int{},
		strLits: map[string]string{}, oblNames: map[string]int{}, notes: map[string]bool{}}
	e.propSel = prop
	e.sc.prelude.WriteString("(declare-datatypes ((Slice 0)) (((mk_slice (s_arr Int) (s_off Int) (s_len Int) (s_cap Int)))))\n")
	e.sc.prelude.WriteString("(declare-fun at (Int Int) Int)\n(assert (forall ((o Int) (i Int)) (! (= (at o i) (+ o i)) :pattern ((at o i)))))\n")
	e.sc.prelude.WriteString("(declare-fun sumlens ((Array Int Slice) Int Int) Int)\n")
	for _, c := range []string{"a", "b"} {
		e.sc.prelude.WriteString("(declare-const " + c + " (Array Int Slice))\n")
	}
	for _, c := range []string{"o", "p", "k", "i", "n"} {
		e.sc.prelude.WriteString("(declare-const " + c + " Int)\n")
	}
	e.sc.prelude.WriteString("(declare-const v Slice)\n")
	props := []string{"C10", "C11"}
	k1 := "(+ k 1)"
	st := "(store a i v)"
	q := "(+ (- p o) k)"
	S := func(a, o, k string) string { return fmt.Sprintf("(sumlens %s %s %s)", a, o, k) }
	steps := []struct{ name, phi string }{
		// L1 non-negativity, by induction on k
		{"L1-nonneg/base", implies(slD0("a", "o"), slL1("a", "o", "0"))},
		{"L1-nonneg/step", implies(and("(>= k 0)", slL1("a", "o", "k"), slD1("a", "o", "k")), slL1("a", "o", k1))},
		// L2 extensionality
		{"L2-ext/negative", implies(and("(< k 0)", slD2("a", "o", "k"), slD2("b", "p", "k")), slL2("a", "b", "o", "p", "k"))},
		{"L2-ext/base", implies(and(slD0("a", "o"), slD0("b", "p")), slL2("a", "b", "o", "p", "0"))},
		{"L2-ext/step", implies(and("(>= k 0)", slL2("a", "b", "o", "p", "k"), slD1("a", "o", "k"), slD1("b", "p", "k")), slL2("a", "b", "o", "p", k1))},
		// L3 frame under a store outside the summed range
		{"L3-frame/negative", implies(and("(< k 0)", slD2(st, "o", "k"), slD2("a", "o", "k")), slL3("a", "i", "v", "o", "k"))},
		{"L3-frame/base", implies(and(slD0(st, "o"), slD0("a", "o")), slL3("a", "i", "v", "o", "0"))},
		{"L3-frame/step", implies(and("(>= k 0)", slL3("a", "i", "v", "o", "k"), slD1(st, "o", "k"), slD1("a", "o", "k")), slL3("a", "i", "v", "o", k1))},
		// L4 every summand is bounded by the sum (uses L1 at k, proved above)
		{"L4-bound/base", slL4("a", "o", "0", "i")},
		{"L4-bound/step", implies(and("(>= k 0)", slL4("a", "o", "k", "i"), slD1("a", "o", "k"), slL1("a", "o", "k")), slL4("a", "o", k1, "i"))},
		// L5 split at p: induction on the length k of the second part
		{"L5-split/base", implies(and("(<= o p)", slD0("a", "p")), eq(S("a", "o", "(+ (- p o) 0)"), sx("+", S("a", "o", "(- p o)"), S("a", "p", "0"))))},
		{"L5-split/step", implies(and("(<= o p)", "(>= k 0)", eq(S("a", "o", q), sx("+", S("a", "o", "(- p o)"), S("a", "p", "k"))), slD1("a", "o", q), slD1("a", "p", "k")),
			eq(S("a", "o", "(+ "+q+" 1)"), sx("+", S("a", "o", "(- p o)"), S("a", "p", k1))))},
		{"L5-split/as-stated", implies(and("(<= o p)", "(>= k 0)", eq(q, "n"), eq(S("a", "o", q), sx("+", S("a", "o", "(- p o)"), S("a", "p", "k")))), slL5("a", "o", "n", "p", "k"))},
	}
	for _, s := range steps {
		o := &Obl{ID: len(e.obls), Name: "prelude:sumlens/lemma/" + s.name, Kind: "lemma", Props: props, Check: prop == "", Phi: s.phi}
		for _, p := range props {
			if p == prop {
				o.Check = true
			}
		}
		if !o.Check {
			o.Result = "assumed"
		}
		e.obls = append(e.obls, o)
		e.sc.obligation(o.ID, "true", s.phi, o.Check, false, false)
	}
	return e
}
