package main

import (
	"go/types"

	"golang.org/x/tools/go/ssa"
)

// Static write-set analysis (regions a function may modify, transitively through
// in-package static callees). Used to havoc at loop heads and at un-inlined calls.

func (e *Eng) modSet(fn *ssa.Function) map[string]bool {
	if m, ok := e.modCache[fn]; ok {
		return m
	}
	m := map[string]bool{}
	e.modCache[fn] = m // recursion guard (under-approximates inside cycles; fixed below)
	for iter := 0; iter < 3; iter++ {
		before := len(m)
		for _, b := range fn.Blocks {
			for _, ins := range b.Instrs {
				e.instrMods(fn, ins, m)
			}
		}
		for _, af := range fn.AnonFuncs {
			// closures created here may be called here
			_ = af
		}
		if len(m) == before && iter > 0 {
			break
		}
	}
	return m
}

func (e *Eng) addStructRegions(t types.Type, m map[string]bool) {
	s := structOf(t)
	if s == nil {
		return
	}
	for i := 0; i < s.NumFields(); i++ {
		ft := s.Field(i).Type()
		if isStructValue(ft) {
			e.addStructRegions(ft, m)
			continue
		}
		r, rs := e.fieldRegion(t, i)
		e.regInit(r, rs)
		m[r] = true
	}
}

func (e *Eng) addTypeReachable(t types.Type, m map[string]bool) {
	switch u := types.Unalias(t).Underlying().(type) {
	case *types.Slice:
		r, rs := e.elemRegion(u.Elem())
		e.regInit(r, rs)
		m[r] = true
	case *types.Pointer:
		pt := u.Elem()
		if _, ok := opaqueScalar(pt); ok {
			return
		}
		if isStructValue(pt) {
			e.addStructRegions(pt, m)
		} else if a, ok := types.Unalias(pt).Underlying().(*types.Array); ok {
			r, rs := e.elemRegion(a.Elem())
			e.regInit(r, rs)
			m[r] = true
		} else {
			r, rs := e.cellRegion(pt)
			e.regInit(r, rs)
			m[r] = true
		}
	}
}

func (e *Eng) addrMods(addr ssa.Value, m map[string]bool) {
	switch a := addr.(type) {
	case *ssa.FieldAddr:
		stt := derefType(a.X.Type())
		ft := structOf(stt).Field(a.Field).Type()
		// field of a struct value living inside a slice element / cell: the container region
		if inner, ok := a.X.(*ssa.IndexAddr); ok {
			e.addrMods(inner, m)
			return
		}
		if inner, ok := a.X.(*ssa.FieldAddr); ok {
			if _, ok2 := inner.X.(*ssa.IndexAddr); ok2 {
				e.addrMods(inner, m)
				return
			}
		}
		if isStructValue(ft) {
			e.addStructRegions(ft, m)
			return
		}
		r, rs := e.fieldRegion(stt, a.Field)
		e.regInit(r, rs)
		m[r] = true
	case *ssa.IndexAddr:
		switch u := types.Unalias(a.X.Type()).Underlying().(type) {
		case *types.Slice:
			r, rs := e.elemRegion(u.Elem())
			e.regInit(r, rs)
			m[r] = true
		case *types.Pointer:
			arr := u.Elem().Underlying().(*types.Array)
			r, rs := e.elemRegion(arr.Elem())
			e.regInit(r, rs)
			m[r] = true
		}
	default:
		e.addTypeReachable(addr.Type(), m)
	}
}

func (e *Eng) instrMods(fn *ssa.Function, ins ssa.Instruction, m map[string]bool) {
	switch x := ins.(type) {
	case *ssa.Store:
		e.addrMods(x.Addr, m)
	case *ssa.MapUpdate:
		mt := types.Unalias(x.Map.Type()).Underlying().(*types.Map)
		hr, hs, vr, vs := e.mapRegions(mt)
		lr, ls := e.mapLenRegion(mt)
		e.regInit(hr, hs)
		e.regInit(vr, vs)
		e.regInit(lr, ls)
		m[hr], m[vr], m[lr] = true, true, true
	case *ssa.Alloc:
		m[frRegion] = true
		e.regInit(frRegion, "Int")
		e.addTypeReachable(x.Type(), m)
	case *ssa.MakeSlice:
		m[frRegion] = true
		e.regInit(frRegion, "Int")
		e.addTypeReachable(x.Type(), m)
	case *ssa.MakeMap:
		m[frRegion] = true
		e.regInit(frRegion, "Int")
		mt := types.Unalias(x.Type()).Underlying().(*types.Map)
		hr, hs, _, _ := e.mapRegions(mt)
		lr, ls := e.mapLenRegion(mt)
		e.regInit(hr, hs)
		e.regInit(lr, ls)
		m[hr], m[lr] = true, true
	case *ssa.MakeChan:
		m[frRegion] = true
		m[chanClosedRegion] = true
		e.regInit(frRegion, "Int")
		e.regInit(chanClosedRegion, "(Array Int Bool)")
	case *ssa.MakeClosure:
		m[frRegion] = true
		e.regInit(frRegion, "Int")
	case *ssa.Convert:
		if isString(x.X.Type()) && isByteSlice(x.Type()) {
			m[frRegion] = true
			e.regInit(frRegion, "Int")
			e.addTypeReachable(x.Type(), m)
		}
	case *ssa.Call:
		e.callMods(fn, x.Common(), m)
	case *ssa.Defer:
		e.callMods(fn, x.Common(), m)
	}
}

func (e *Eng) callMods(fn *ssa.Function, c *ssa.CallCommon, m map[string]bool) {
	if c.IsInvoke() {
		name := calleeName(c)
		if is := e.spec.Ifaces[name]; is != nil {
			for _, a := range is.Assigns {
				for _, r := range e.resolveRegionPattern(a) {
					m[r] = true
				}
			}
			return
		}
		for _, a := range c.Args {
			e.addTypeReachable(a.Type(), m)
		}
		if mods, ok := ifaceMods[name]; ok {
			for _, r := range mods {
				e.regInitAuto(r)
				m[r] = true
			}
		}
		return
	}
	if b, ok := c.Value.(*ssa.Builtin); ok {
		switch b.Name() {
		case "append":
			m[frRegion] = true
			e.regInit(frRegion, "Int")
			e.addTypeReachable(c.Args[0].Type(), m)
		case "copy", "clear":
			e.addTypeReachable(c.Args[0].Type(), m)
		case "delete":
			mt := types.Unalias(c.Args[0].Type()).Underlying().(*types.Map)
			hr, hs, _, _ := e.mapRegions(mt)
			lr, ls := e.mapLenRegion(mt)
			e.regInit(hr, hs)
			e.regInit(lr, ls)
			m[hr], m[lr] = true, true
		case "close":
			m[chanClosedRegion] = true
			e.regInit(chanClosedRegion, "(Array Int Bool)")
		}
		return
	}
	var callee *ssa.Function
	if f := c.StaticCallee(); f != nil {
		callee = f
	} else if mc, ok := c.Value.(*ssa.MakeClosure); ok {
		callee = mc.Fn.(*ssa.Function)
	}
	if callee == nil {
		// dynamic: closures defined in this function might be the target
		for _, af := range fn.AnonFuncs {
			for r := range e.modSet(af) {
				m[r] = true
			}
		}
		return
	}
	key := fnKey(callee)
	// lock operations havoc what the lock protects
	switch key {
	case "(*sync.RWMutex).Lock", "(*sync.RWMutex).RLock", "(*sync.Mutex).Lock":
		if fa, ok := c.Args[0].(*ssa.FieldAddr); ok {
			stt := derefType(fa.X.Type())
			lk := e.structName(stt) + "." + structOf(stt).Field(fa.Field).Name()
			if ls := e.spec.Locks[lk]; ls != nil {
				for _, p := range ls.Protects {
					for _, r := range e.resolveRegionPattern(p) {
						m[r] = true
					}
				}
			}
		}
		return
	}
	if mods, ok := externMods[key]; ok {
		for _, r := range mods {
			if r == "@args" {
				for _, a := range c.Args {
					e.addTypeReachable(a.Type(), m)
				}
				continue
			}
			if r == "@arg0field" {
				if len(c.Args) > 0 {
					e.addrMods(c.Args[0], m)
				}
				continue
			}
			e.regInitAuto(r)
			m[r] = true
		}
		return
	}
	if len(callee.Blocks) > 0 && (callee.Pkg == e.ld.ssaPkg || callee.Pkg == nil || (callee.Parent() != nil)) {
		if fs := e.spec.Funcs[key]; fs != nil && len(fs.Assigns) > 0 {
			for _, a := range fs.Assigns {
				for _, r := range e.resolveRegionPattern(a) {
					m[r] = true
				}
			}
			m[frRegion] = true
			e.regInit(frRegion, "Int")
			return
		}
		for r := range e.modSet(callee) {
			m[r] = true
		}
		return
	}
	// unknown external: may write through its arguments
	for _, a := range c.Args {
		e.addTypeReachable(a.Type(), m)
	}
}

func (e *Eng) regInitAuto(r string) {
	switch r {
	case frRegion, clockRegion:
		e.regInit(r, "Int")
	case chanClosedRegion:
		e.regInit(r, "(Array Int Bool)")
	}
}

// loopMods: regions modified by the blocks of a loop body.
func (e *Eng) loopMods(fr *Frame, body map[*ssa.BasicBlock]bool) map[string]bool {
	m := map[string]bool{}
	for b := range body {
		for _, ins := range b.Instrs {
			e.instrMods(fr.fn, ins, m)
		}
	}
	return m
}
