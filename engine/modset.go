package main

import (
	"strings"
	"go/types"

	"golang.org/x/tools/go/ssa"
)

// Static write-set analysis (regions a function may modify, transitively through
// in-package static callees). Used to havoc at loop heads and at un-inlined calls.

// modGeneral[fn][r]: fn may write r at a pre-existing location (not only inside objects it allocated itself)
func (e *Eng) modSet(fn *ssa.Function) map[string]bool {
	if m, ok := e.modCache[fn]; ok {
		return m
	}
	m := map[string]bool{}
	e.modCache[fn] = m // recursion guard (under-approximates inside cycles; fixed below)
	if e.modGeneral == nil {
		e.modGeneral = map[*ssa.Function]map[string]bool{}
	}
	gen := map[string]bool{}
	e.modGeneral[fn] = gen
	savedScope := e.freshScope
	e.freshScope = nil
	defer func() { e.freshScope = savedScope }()
	for iter := 0; iter < 3; iter++ {
		before := len(m) + len(gen)
		for _, b := range fn.Blocks {
			for _, ins := range b.Instrs {
				e.curGen = gen
				e.instrMods(fn, ins, m)
			}
		}
		for _, af := range fn.AnonFuncs {
			// closures created here may be called here
			_ = af
		}
		if len(m)+len(gen) == before && iter > 0 {
			break
		}
	}
	// ghost variables assigned by the site clauses of the function's own contract are part of what it writes
	if e.spec != nil {
		if fs := e.spec.Funcs[fnKey(fn)]; fs != nil {
			for _, s := range fs.Sites {
				if s.SetGhost != "" {
					for _, r := range e.resolveRegionPattern(s.SetGhost) {
						m[r] = true
						gen[r] = true
					}
				}
			}
		}
	}
	return m
}

// isFreshAddr: the address is (a field / element of) an object allocated by this very instruction stream
func (e *Eng) isFreshAddr(v ssa.Value) bool {
	for i := 0; i < 6; i++ {
		switch x := v.(type) {
		case *ssa.Alloc:
			// inside a loop only allocations made by the loop body itself are fresh w.r.t. the loop head
			return e.freshScope == nil || e.freshScope[x.Block()]
		case *ssa.FieldAddr:
			v = x.X
		case *ssa.IndexAddr:
			v = x.X
		case *ssa.MakeSlice:
			return e.freshScope == nil || e.freshScope[x.Block()]
		case *ssa.Slice:
			v = x.X
		default:
			return false
		}
	}
	return false
}

// markGeneral: everything added to m between the two snapshots counts as a general write
func (e *Eng) markGeneral(m map[string]bool, before map[string]bool) {
	if e.curGen == nil {
		return
	}
	for r := range m {
		if !before[r] || true {
			_ = before
		}
	}
}

func (e *Eng) addStructRegions(t types.Type, m map[string]bool) {
	s := structOf(t)
	if s == nil {
		return
	}
	for i := 0; i < s.NumFields(); i++ {
		ft := s.Field(i).Type()
		if isStructValue(ft) {
			e.addStructRegions(ft, m)
			continue
		}
		r, rs := e.fieldRegion(t, i)
		e.regInit(r, rs)
		m[r] = true
	}
}

func (e *Eng) addTypeReachable(t types.Type, m map[string]bool) {
	switch u := types.Unalias(t).Underlying().(type) {
	case *types.Slice:
		r, rs := e.elemRegion(u.Elem())
		e.regInit(r, rs)
		m[r] = true
	case *types.Pointer:
		pt := u.Elem()
		if _, ok := opaqueScalar(pt); ok {
			return
		}
		if isStructValue(pt) {
			e.addStructRegions(pt, m)
		} else if a, ok := types.Unalias(pt).Underlying().(*types.Array); ok {
			r, rs := e.elemRegion(a.Elem())
			e.regInit(r, rs)
			m[r] = true
		} else {
			r, rs := e.cellRegion(pt)
			e.regInit(r, rs)
			m[r] = true
		}
	}
}

func (e *Eng) addrMods(addr ssa.Value, m map[string]bool) {
	switch a := addr.(type) {
	case *ssa.FieldAddr:
		stt := derefType(a.X.Type())
		ft := structOf(stt).Field(a.Field).Type()
		// field of a struct value living inside a slice element / cell: the container region
		if inner, ok := a.X.(*ssa.IndexAddr); ok {
			e.addrMods(inner, m)
			return
		}
		if inner, ok := a.X.(*ssa.FieldAddr); ok {
			if _, ok2 := inner.X.(*ssa.IndexAddr); ok2 {
				e.addrMods(inner, m)
				return
			}
		}
		if isStructValue(ft) {
			e.addStructRegions(ft, m)
			return
		}
		r, rs := e.fieldRegion(stt, a.Field)
		e.regInit(r, rs)
		m[r] = true
	case *ssa.IndexAddr:
		switch u := types.Unalias(a.X.Type()).Underlying().(type) {
		case *types.Slice:
			r, rs := e.elemRegion(u.Elem())
			e.regInit(r, rs)
			m[r] = true
		case *types.Pointer:
			arr := u.Elem().Underlying().(*types.Array)
			r, rs := e.elemRegion(arr.Elem())
			e.regInit(r, rs)
			m[r] = true
		}
	default:
		e.addTypeReachable(addr.Type(), m)
	}
}

func (e *Eng) instrMods(fn *ssa.Function, ins ssa.Instruction, m map[string]bool) {
	switch x := ins.(type) {
	case *ssa.Store:
		tmp := map[string]bool{}
		e.addrMods(x.Addr, tmp)
		for r := range tmp {
			m[r] = true
			if !e.isFreshAddr(x.Addr) && e.curGen != nil {
				e.curGen[r] = true
			}
		}
	case *ssa.MapUpdate:
		mt := types.Unalias(x.Map.Type()).Underlying().(*types.Map)
		hr, hs, vr, vs := e.mapRegions(mt)
		lr, ls := e.mapLenRegion(mt)
		e.regInit(hr, hs)
		e.regInit(vr, vs)
		e.regInit(lr, ls)
		m[hr], m[vr], m[lr] = true, true, true
		mm, fresh := x.Map.(*ssa.MakeMap)
		if fresh && e.freshScope != nil && !e.freshScope[mm.Block()] {
			fresh = false
		}
		if !fresh && e.curGen != nil {
			e.curGen[hr], e.curGen[vr], e.curGen[lr] = true, true, true
		}
	case *ssa.Alloc:
		m[frRegion] = true
		e.regInit(frRegion, "Int")
		e.addTypeReachable(x.Type(), m)
		if pt := derefType(x.Type()); pt != nil && isNamed(pt, "bytes", "Buffer") {
			e.regInit("BL", "(Array Int Int)")
			m["BL"] = true
		}
	case *ssa.MakeSlice:
		m[frRegion] = true
		e.regInit(frRegion, "Int")
		e.addTypeReachable(x.Type(), m)
	case *ssa.MakeMap:
		m[frRegion] = true
		e.regInit(frRegion, "Int")
		mt := types.Unalias(x.Type()).Underlying().(*types.Map)
		hr, hs, _, _ := e.mapRegions(mt)
		lr, ls := e.mapLenRegion(mt)
		e.regInit(hr, hs)
		e.regInit(lr, ls)
		m[hr], m[lr] = true, true
	case *ssa.MakeChan:
		m[frRegion] = true
		m[chanClosedRegion] = true
		e.regInit(frRegion, "Int")
		e.regInit(chanClosedRegion, "(Array Int Bool)")
	case *ssa.MakeClosure:
		m[frRegion] = true
		e.regInit(frRegion, "Int")
	case *ssa.Convert:
		if isString(x.X.Type()) && isByteSlice(x.Type()) {
			m[frRegion] = true
			e.regInit(frRegion, "Int")
			e.addTypeReachable(x.Type(), m)
		}
	case *ssa.Call:
		e.callModsG(fn, x.Common(), m)
	case *ssa.Defer:
		e.callModsG(fn, x.Common(), m)
	}
}

// callModsG: like callMods, and classifies the callee's writes as general unless the callee is an
// in-package function (without an explicit assigns clause) that only initialises its own allocations there.
func (e *Eng) callModsG(fn *ssa.Function, c *ssa.CallCommon, m map[string]bool) {
	saved := e.curGen
	tmp := map[string]bool{}
	e.callMods(fn, c, tmp)
	e.curGen = saved
	var calleeGen map[string]bool
	if !c.IsInvoke() {
		if callee := c.StaticCallee(); callee != nil && len(callee.Blocks) > 0 {
			if fs := e.spec.Funcs[fnKey(callee)]; fs == nil || len(fs.Assigns) == 0 {
				if _, isExt := externMods[fnKey(callee)]; !isExt {
					calleeGen = e.modGeneral[callee]
				}
			}
		}
	}
	if c.IsInvoke() {
		if is := e.spec.Ifaces[calleeName(c)]; is != nil {
			// an interface method under contract: only what its assigns clause lists without "fresh" is a general write
			calleeGen = map[string]bool{}
			for _, a := range is.Assigns {
				if !strings.HasPrefix(a, "fresh ") {
					for _, r := range e.resolveRegionPattern(a) {
						calleeGen[r] = true
					}
				}
			}
		}
	}
	for r := range tmp {
		m[r] = true
		if saved == nil {
			continue
		}
		if calleeGen != nil {
			if calleeGen[r] {
				saved[r] = true
			}
		} else {
			saved[r] = true
		}
	}
}

func (e *Eng) callMods(fn *ssa.Function, c *ssa.CallCommon, m map[string]bool) {
	// an `any` argument that boxes a pointer (decoders): what the pointer designates may be written
	// (not by the modelled btree, which only compares its items through their Less method)
	keepsArgs := false
	if f := c.StaticCallee(); f != nil && strings.HasPrefix(fnKey(f), btPrefix) {
		keepsArgs = true
	}
	for _, a := range c.Args {
		if mi, ok := a.(*ssa.MakeInterface); ok && !keepsArgs {
			if derefType(mi.X.Type()) != nil {
				if _, isAddr := mi.X.(*ssa.IndexAddr); isAddr {
					e.addrMods(mi.X, m)
				} else if _, isFA := mi.X.(*ssa.FieldAddr); isFA {
					e.addrMods(mi.X, m)
				} else {
					e.addTypeReachable(mi.X.Type(), m)
				}
			}
		}
	}
	if c.IsInvoke() {
		name := calleeName(c)
		if is := e.spec.Ifaces[name]; is != nil {
			for _, a := range is.Assigns {
				if strings.HasPrefix(a, "fresh ") {
					m[frRegion] = true
				}
				for _, r := range e.resolveRegionPattern(strings.TrimPrefix(a, "fresh ")) {
					m[r] = true
				}
			}
			return
		}
		for _, a := range c.Args {
			e.addTypeReachable(a.Type(), m)
		}
		if mods, ok := ifaceMods[name]; ok {
			for _, r := range mods {
				e.regInitAuto(r)
				m[r] = true
			}
		}
		return
	}
	if b, ok := c.Value.(*ssa.Builtin); ok {
		switch b.Name() {
		case "append":
			m[frRegion] = true
			e.regInit(frRegion, "Int")
			e.addTypeReachable(c.Args[0].Type(), m)
		case "copy", "clear":
			e.addTypeReachable(c.Args[0].Type(), m)
		case "delete":
			mt := types.Unalias(c.Args[0].Type()).Underlying().(*types.Map)
			hr, hs, _, _ := e.mapRegions(mt)
			lr, ls := e.mapLenRegion(mt)
			e.regInit(hr, hs)
			e.regInit(lr, ls)
			m[hr], m[lr] = true, true
		case "close":
			m[chanClosedRegion] = true
			e.regInit(chanClosedRegion, "(Array Int Bool)")
		}
		return
	}
	var callee *ssa.Function
	if f := c.StaticCallee(); f != nil {
		callee = f
	} else if mc, ok := c.Value.(*ssa.MakeClosure); ok {
		callee = mc.Fn.(*ssa.Function)
	}
	if callee == nil {
		// dynamic: closures defined in this function might be the target
		for _, af := range fn.AnonFuncs {
			for r := range e.modSet(af) {
				m[r] = true
			}
		}
		return
	}
	key := fnKey(callee)
	// lock operations havoc what the lock protects
	switch key {
	case "(*sync.RWMutex).Lock", "(*sync.RWMutex).RLock", "(*sync.Mutex).Lock":
		if fa, ok := c.Args[0].(*ssa.FieldAddr); ok {
			stt := derefType(fa.X.Type())
			lk := e.structName(stt) + "." + structOf(stt).Field(fa.Field).Name()
			if ls := e.spec.Locks[lk]; ls != nil {
				for _, p := range ls.Protects {
					for _, r := range e.resolveRegionPattern(p) {
						m[r] = true
					}
				}
			}
		}
		return
	}
	if mods, ok := externMods[key]; ok {
		for _, r := range mods {
			if r == "@args" {
				for _, a := range c.Args {
					e.addTypeReachable(a.Type(), m)
				}
				continue
			}
			if r == "@arg0field" {
				if len(c.Args) > 0 {
					e.addrMods(c.Args[0], m)
				}
				continue
			}
			if r == "G.$wrapped" {
				if _, has := e.spec.Ghosts["$wrapped"]; !has {
					continue
				}
			}
			e.regInitAuto(r)
			m[r] = true
		}
		return
	}
	if len(callee.Blocks) > 0 && (callee.Pkg == e.ld.ssaPkg || callee.Pkg == nil || (callee.Parent() != nil)) {
		if fs := e.spec.Funcs[key]; fs != nil && len(fs.Assigns) > 0 {
			for _, a := range fs.Assigns {
				for _, r := range e.resolveRegionPattern(a) {
					m[r] = true
				}
			}
			m[frRegion] = true
			e.regInit(frRegion, "Int")
			return
		}
		for r := range e.modSet(callee) {
			m[r] = true
		}
		return
	}
	// unknown external: may write through its arguments
	for _, a := range c.Args {
		e.addTypeReachable(a.Type(), m)
	}
}

func (e *Eng) regInitAuto(r string) {
	switch r {
	case frRegion, clockRegion:
		e.regInit(r, "Int")
	case chanClosedRegion:
		e.regInit(r, "(Array Int Bool)")
	case "G.$wrapped":
		e.regInit(r, "Bool")
	case "BL", "BR", "ENCW":
		e.regInit(r, "(Array Int Int)")
	}
}

// loopMods: regions modified by the blocks of a loop body.
func (e *Eng) loopMods(fr *Frame, body map[*ssa.BasicBlock]bool) (map[string]bool, map[string]bool) {
	m := map[string]bool{}
	gen := map[string]bool{}
	saved := e.curGen
	savedScope := e.freshScope
	for b := range body {
		for _, ins := range b.Instrs {
			e.curGen = gen
			e.freshScope = body
			e.instrMods(fr.fn, ins, m)
			// ghost assignments attached to a site inside the loop, directly or inside helpers without a contract of
			// their own that will be inlined there (the function's site clauses follow the code into them)
			if fr.fspec != nil {
				if c, ok := ins.(ssa.CallInstruction); ok {
					e.ghostSitesIn(c.Common().StaticCallee(), fr.fspec, m, gen, 0)
				}
				kind, name := "", ""
				switch x := ins.(type) {
				case *ssa.Call:
					kind, name = "call", calleeName(x.Common())
				case *ssa.Defer:
					kind, name = "call", calleeName(x.Common())
				case *ssa.Go:
					kind, name = "go", calleeName(x.Common())
				case *ssa.MakeSlice:
					kind, name = "make", descr(x.Len, 0)
				}
				if kind != "" {
					for _, s := range fr.fspec.Sites {
						if s.SetGhost != "" && s.Kind == kind && s.Callee == name && (s.Ordinal == 0 || s.Ordinal == e.ordinalOf(fr, ins)) {
							for _, r := range e.resolveRegionPattern(s.SetGhost) {
								m[r] = true
								gen[r] = true
							}
						}
					}
				}
			}
		}
	}
	e.curGen = saved
	e.freshScope = savedScope
	return m, gen
}

// ghostSitesIn: ghost variables assigned by site clauses of fs (without ordinal) at calls inside fn, a callee without a
// contract of its own, and inside such callees of fn (bounded by the inlining depth).
func (e *Eng) ghostSitesIn(fn *ssa.Function, fs *FuncSpec, m, gen map[string]bool, depth int) {
	if fn == nil || len(fn.Blocks) == 0 || depth > 4 || e.spec.Funcs[fnKey(fn)] != nil {
		return
	}
	if fn.Pkg != e.ld.ssaPkg && !(fn.Parent() != nil && fn.Parent().Pkg == e.ld.ssaPkg) {
		return
	}
	for _, b := range fn.Blocks {
		for _, ins := range b.Instrs {
			c, ok := ins.(ssa.CallInstruction)
			if !ok {
				continue
			}
			name := calleeName(c.Common())
			for _, s := range fs.Sites {
				if s.SetGhost != "" && s.Kind == "call" && s.Callee == name && s.Ordinal == 0 {
					// (over-approximation: also when the function has such sites of its own and the clause does not follow)
					for _, r := range e.resolveRegionPattern(s.SetGhost) {
						m[r] = true
						gen[r] = true
					}
				}
			}
			e.ghostSitesIn(c.Common().StaticCallee(), fs, m, gen, depth+1)
		}
	}
}
