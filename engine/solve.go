package main

import (
	"bytes"
	"context"
	"fmt"
	"os"
	"os/exec"
	"path/filepath"
	"strconv"
	"strings"
	"sync"
	"time"
)

type SolverRun struct {
	Name    string
	Results map[int]string  // obligation id -> sat|unsat|unknown|timeout|error
	Times   map[int]float64 // seconds
	Models  map[int]string
	Total   float64
	Err     string
}

type solverSpec struct {
	name string
	cmd  func(file string, perQueryMs int) []string
	logic string
}

var solvers = []solverSpec{
	{"z3-4.8.12", func(f string, ms int) []string { return []string{"/usr/bin/z3", fmt.Sprintf("-t:%d", ms), f} }, ""},
	{"z3-5.1.0", func(f string, ms int) []string { return []string{"z3-new", fmt.Sprintf("-t:%d", ms), f} }, ""},
	{"cvc5-1.0", func(f string, ms int) []string {
		return []string{"/usr/bin/cvc5", "--incremental", fmt.Sprintf("--tlimit-per=%d", ms), "--produce-models", f}
	}, "ALL"},
}

// runSolver executes one solver over the whole script and splits the output per obligation.
func runSolver(pctx context.Context, sp solverSpec, file string, perQueryMs int, totalTimeout time.Duration, onResult func(id int, res string)) *SolverRun {
	run := &SolverRun{Name: sp.name, Results: map[int]string{}, Times: map[int]float64{}, Models: map[int]string{}}
	ctx, cancel := context.WithTimeout(pctx, totalTimeout)
	defer cancel()
	args := sp.cmd(file, perQueryMs)
	cmd := exec.CommandContext(ctx, args[0], args[1:]...)
	stdout, err := cmd.StdoutPipe()
	if err != nil {
		run.Err = err.Error()
		return run
	}
	var stderr bytes.Buffer
	cmd.Stderr = &stderr
	start := time.Now()
	if err := cmd.Start(); err != nil {
		run.Err = err.Error()
		return run
	}
	// stream-parse so that per-obligation wall times can be measured
	buf := make([]byte, 0, 1<<16)
	tmp := make([]byte, 1<<14)
	cur := -1
	curKind := ""
	last := time.Now()
	inModel := -1
	var model strings.Builder
	handle := func(line string) {
		line = strings.TrimSpace(line)
		if line == "" {
			return
		}
		unq := strings.Trim(line, "\"")
		switch {
		case strings.HasPrefix(unq, "@@OBL "):
			cur, _ = strconv.Atoi(strings.TrimPrefix(unq, "@@OBL "))
			curKind = "obl"
			last = time.Now()
		case strings.HasPrefix(unq, "@@COVER "):
			cur, _ = strconv.Atoi(strings.TrimPrefix(unq, "@@COVER "))
			curKind = "cover"
			last = time.Now()
		case strings.HasPrefix(unq, "@@MODEL "):
			inModel, _ = strconv.Atoi(strings.TrimPrefix(unq, "@@MODEL "))
			model.Reset()
		case strings.HasPrefix(unq, "@@ENDMODEL "):
			if inModel >= 0 {
				run.Models[inModel] = model.String()
			}
			inModel = -1
		case inModel >= 0:
			model.WriteString(line)
			model.WriteString("\n")
		case line == "sat" || line == "unsat" || line == "unknown" || line == "timeout":
			if cur >= 0 {
				if _, done := run.Results[cur]; !done {
					run.Results[cur] = line
					run.Times[cur] = time.Since(last).Seconds()
					if onResult != nil {
						onResult(cur, line)
					}
				}
			}
			_ = curKind
		case strings.HasPrefix(line, "(error"):
			if cur >= 0 && !strings.Contains(line, "model is not available") && !strings.Contains(line, "Cannot get model") && !strings.Contains(line, "cannot get model") {
				if _, done := run.Results[cur]; !done {
					run.Results[cur] = "error"
					if run.Err == "" {
						run.Err = line
					}
				}
			} else if cur < 0 && run.Err == "" {
				run.Err = line
			}
		}
	}
	for {
		n, rerr := stdout.Read(tmp)
		if n > 0 {
			buf = append(buf, tmp[:n]...)
			for {
				i := bytes.IndexByte(buf, '\n')
				if i < 0 {
					break
				}
				handle(string(buf[:i]))
				buf = buf[i+1:]
			}
		}
		if rerr != nil {
			break
		}
	}
	if len(buf) > 0 {
		handle(string(buf))
	}
	cmd.Wait()
	run.Total = time.Since(start).Seconds()
	if ctx.Err() != nil && run.Err == "" && pctx.Err() == nil {
		run.Err = "total timeout"
	}
	if run.Err == "" && stderr.Len() > 0 && len(run.Results) == 0 {
		run.Err = strings.TrimSpace(stderr.String())
	}
	return run
}

// solveScript races all solvers on one script. Returns per-solver runs.
func solveScript(dir, name string, sc *Script, perQueryMs int, total time.Duration, which []string, obls []*Obl) []*SolverRun {
	os.MkdirAll(dir, 0o755)
	var wg sync.WaitGroup
	var runs []*SolverRun
	var mu sync.Mutex
	// stop all solvers as soon as every checked obligation has a definite answer from someone
	need := map[int]bool{}
	isCover := map[int]bool{}
	nCovers := 0
	for _, o := range obls {
		if o.Check {
			need[o.ID] = true
			isCover[o.ID] = o.IsCover
			if o.IsCover {
				nCovers++
			}
		}
	}
	pctx, pcancel := context.WithCancel(context.Background())
	defer pcancel()
	var dmu sync.Mutex
	finished := 0
	onResult := func(id int, res string) {
		dmu.Lock()
		defer dmu.Unlock()
		if !need[id] {
			return
		}
		if (isCover[id] && res == "sat") || (!isCover[id] && res == "unsat") {
			delete(need, id)
			if len(need) == 0 && len(obls) > 0 {
				pcancel()
			}
		}
	}
	for _, sp := range solvers {
		use := len(which) == 0
		for _, w := range which {
			if strings.HasPrefix(sp.name, w) {
				use = true
			}
		}
		if !use {
			continue
		}
		file := filepath.Join(dir, sanitize(name)+"."+sp.name+".smt2")
		if err := os.WriteFile(file, []byte(sc.TextFor(sp.logic, strings.HasPrefix(sp.name, "z3"), perQueryMs)), 0o644); err != nil {
			continue
		}
		wg.Add(1)
		go func(sp solverSpec, file string) {
			defer wg.Done()
			solverSem <- struct{}{}
			r := runSolver(pctx, sp, file, perQueryMs, total, onResult)
			<-solverSem
			// once two solvers have been through the whole script the third is not waited for
			dmu.Lock()
			if r.Err == "" {
				finished++
			}
			if finished >= 2 {
				pcancel()
			}
			dmu.Unlock()
			mu.Lock()
			runs = append(runs, r)
			mu.Unlock()
		}(sp, file)
	}
	// covers: separate script (same context, obligations only assumed), short timeout, z3 only
	cctx, ccancel := context.WithCancel(context.Background())
	defer ccancel()
	if nCovers > 0 {
		for _, sp := range solvers {
			if !strings.HasPrefix(sp.name, "z3") {
				continue
			}
			file := filepath.Join(dir, sanitize(name)+".cover."+sp.name+".smt2")
			if err := os.WriteFile(file, []byte(sc.CoverText(sp.logic)), 0o644); err != nil {
				continue
			}
			wg.Add(1)
			go func(sp solverSpec, file string) {
				defer wg.Done()
				solverSem <- struct{}{}
				coverMs := 500
				if nCovers > 12 {
					coverMs = 200
				}
				r := runSolver(cctx, sp, file, coverMs, time.Duration(nCovers)*1000*time.Millisecond+20*time.Second, func(id int, res string) {
					onResult(id, res)
				})
				ccancel() // the first cover run to finish ends the other one
				<-solverSem
				r.Name = sp.name
				mu.Lock()
				runs = append(runs, r)
				mu.Unlock()
			}(sp, file)
		}
	}
	wg.Wait()
	return runs
}

var solverSem = make(chan struct{}, 14)

// combine merges solver runs into the obligations.
func combine(obls []*Obl, runs []*SolverRun) (disagree []string) {
	for _, o := range obls {
		if !o.Check {
			continue
		}
		var unsatBy, satBy string
		var tUnsat, tSat float64
		allTimeout := true
		for _, r := range runs {
			res, ok := r.Results[o.ID]
			if !ok {
				continue
			}
			switch res {
			case "unsat":
				if unsatBy == "" || r.Times[o.ID] < tUnsat {
					unsatBy, tUnsat = r.Name, r.Times[o.ID]
				}
				allTimeout = false
			case "sat":
				if satBy == "" || r.Times[o.ID] < tSat {
					satBy, tSat = r.Name, r.Times[o.ID]
				}
				if m, ok := r.Models[o.ID]; ok && o.Model == "" {
					o.Model = m
				}
				allTimeout = false
			case "unknown":
				allTimeout = false
			}
		}
		switch {
		case unsatBy != "" && satBy != "":
			disagree = append(disagree, fmt.Sprintf("%s: %s says unsat, %s says sat", o.Name, unsatBy, satBy))
			o.Result = "disagree"
		case unsatBy != "":
			o.Result, o.Solver, o.Time = "unsat", unsatBy, tUnsat
		case satBy != "":
			o.Result, o.Solver, o.Time = "sat", satBy, tSat
		case allTimeout:
			o.Result = "timeout"
		default:
			o.Result = "unknown"
		}
	}
	return
}
