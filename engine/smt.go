package main

// SMT-LIB emission: one linear script per verified function.
// Terms are plain strings; every SSA value / heap version is named by a
// define-fun so terms stay small.

import (
	"fmt"
	"sort"
	"strings"
)

type Script struct {
	prelude  strings.Builder // sort / datatype / function declarations
	body     strings.Builder // definitions, assumptions, obligations (push/pop)
	cbody    strings.Builder // same definitions/assumptions, reachability covers instead of obligations
	declared map[string]bool
	nfresh   int
	dtOrder  []string
}

func NewScript() *Script {
	return &Script{declared: map[string]bool{}}
}

func (s *Script) fresh(prefix string) string {
	s.nfresh++
	return fmt.Sprintf("%s!%d", sanitize(prefix), s.nfresh)
}

func sanitize(n string) string {
	var b strings.Builder
	for _, r := range n {
		switch {
		case r >= 'a' && r <= 'z', r >= 'A' && r <= 'Z', r >= '0' && r <= '9', r == '_', r == '.', r == '$', r == '!':
			b.WriteRune(r)
		case r == '*':
			b.WriteString("P")
		case r == '[' || r == ']':
			b.WriteString("S")
		case r == '/':
			b.WriteString(".")
		default:
			b.WriteString("_")
		}
	}
	return b.String()
}

// declare emits a prelude declaration once (keyed by name).
func (s *Script) declare(name, decl string) {
	if s.declared[name] {
		return
	}
	s.declared[name] = true
	s.prelude.WriteString(decl)
	s.prelude.WriteString("\n")
}

func (s *Script) declConst(name, sortName string) {
	s.declare(name, fmt.Sprintf("(declare-fun %s () %s)", name, sortName))
}

// bodyConst declares a fresh constant in the body (havoc).
func (s *Script) havoc(prefix, sortName string) string {
	n := s.fresh(prefix)
	s.emit(fmt.Sprintf("(declare-fun %s () %s)\n", n, sortName))
	return n
}

func (s *Script) define(prefix, sortName, term, comment string) string {
	n := s.fresh(prefix)
	if comment != "" {
		s.emit(fmt.Sprintf("(define-fun %s () %s %s) ; %s\n", n, sortName, term, oneline(comment)))
	} else {
		s.emit(fmt.Sprintf("(define-fun %s () %s %s)\n", n, sortName, term))
	}
	return n
}

func oneline(c string) string {
	c = strings.ReplaceAll(c, "\n", " ")
	if len(c) > 160 {
		c = c[:160]
	}
	return c
}

func (s *Script) assume(term, comment string) {
	if term == "true" {
		return
	}
	if comment != "" {
		s.emit(fmt.Sprintf("(assert %s) ; %s\n", term, oneline(comment)))
	} else {
		s.emit(fmt.Sprintf("(assert %s)\n", term))
	}
}

func (s *Script) emit(t string) {
	s.body.WriteString(t)
	s.cbody.WriteString(t)
}

func (s *Script) comment(c string) {
	s.emit(fmt.Sprintf("; %s\n", oneline(c)))
}

// obligation emits push / assert not / check-sat / pop and then assumes it.
// check=false: only assumed (obligation belongs to another property's run).
func (s *Script) obligation(id int, guard, phi string, check, wantModel, assumeAfter bool) {
	full := phi
	if guard != "true" {
		full = fmt.Sprintf("(=> %s %s)", guard, phi)
	}
	if check {
		fmt.Fprintf(&s.body, "(echo \"@@OBL %d\")\n(push 1)\n(assert (not %s))\n(check-sat)\n", id, full)
		if wantModel {
			fmt.Fprintf(&s.body, "(echo \"@@MODEL %d\")\n(get-model)\n(echo \"@@ENDMODEL %d\")\n", id, id)
		}
		fmt.Fprintf(&s.body, "(pop 1)\n")
	}
	if assumeAfter {
		s.emit(fmt.Sprintf("(assert %s)\n", full))
	}
}

// cover emits a reachability check: sat expected.
func (s *Script) cover(id int, cond string) {
	fmt.Fprintf(&s.cbody, "(echo \"@@COVER %d\")\n(push 1)\n(assert %s)\n(check-sat)\n(pop 1)\n", id, cond)
}

// TextFor renders the script for one solver; z3 gets per-cover timeouts.
func (s *Script) TextFor(logic string, z3 bool, defaultMs int) string {
	return s.Text(logic)
}

// CoverText: the cover script (obligations are only assumed there).
func (s *Script) CoverText(logic string) string {
	var b strings.Builder
	b.WriteString("(set-option :produce-models true)\n")
	if logic != "" {
		fmt.Fprintf(&b, "(set-logic %s)\n", logic)
	}
	b.WriteString(s.prelude.String())
	b.WriteString(s.cbody.String())
	return b.String()
}

func (s *Script) Text(logic string) string {
	var b strings.Builder
	b.WriteString("(set-option :produce-models true)\n")
	if logic != "" {
		fmt.Fprintf(&b, "(set-logic %s)\n", logic)
	}
	b.WriteString(s.prelude.String())
	b.WriteString(s.body.String())
	return b.String()
}

// ---------- term helpers ----------

func sx(op string, args ...string) string {
	return "(" + op + " " + strings.Join(args, " ") + ")"
}

func and(args ...string) string {
	var xs []string
	for _, a := range args {
		if a == "true" || a == "" {
			continue
		}
		if a == "false" {
			return "false"
		}
		xs = append(xs, a)
	}
	switch len(xs) {
	case 0:
		return "true"
	case 1:
		return xs[0]
	}
	return "(and " + strings.Join(xs, " ") + ")"
}

func or(args ...string) string {
	var xs []string
	for _, a := range args {
		if a == "false" || a == "" {
			continue
		}
		if a == "true" {
			return "true"
		}
		xs = append(xs, a)
	}
	switch len(xs) {
	case 0:
		return "false"
	case 1:
		return xs[0]
	}
	return "(or " + strings.Join(xs, " ") + ")"
}

func not(a string) string {
	switch a {
	case "true":
		return "false"
	case "false":
		return "true"
	}
	if strings.HasPrefix(a, "(not ") && balancedTail(a[5:len(a)-1]) {
		return a[5 : len(a)-1]
	}
	return "(not " + a + ")"
}

func balancedTail(s string) bool {
	d := 0
	for i, c := range s {
		if c == '(' {
			d++
		} else if c == ')' {
			d--
			if d == 0 && i != len(s)-1 {
				return false
			}
			if d < 0 {
				return false
			}
		} else if d == 0 && (c == ' ') {
			return false
		}
	}
	return d == 0
}

func implies(a, b string) string {
	if a == "true" {
		return b
	}
	if a == "false" || b == "true" {
		return "true"
	}
	return "(=> " + a + " " + b + ")"
}

func ite(c, a, b string) string {
	if c == "true" {
		return a
	}
	if c == "false" {
		return b
	}
	if a == b {
		return a
	}
	return "(ite " + c + " " + a + " " + b + ")"
}

func eq(a, b string) string {
	if a == b {
		return "true"
	}
	return "(= " + a + " " + b + ")"
}

func intLit(v int64) string {
	if v < 0 {
		return fmt.Sprintf("(- %d)", -v)
	}
	return fmt.Sprintf("%d", v)
}

func bigLit(s string) string {
	if strings.HasPrefix(s, "-") {
		return "(- " + s[1:] + ")"
	}
	return s
}

func sel(arr, idx string) string { return "(select " + arr + " " + idx + ")" }
func sto(arr, idx, v string) string {
	return "(store " + arr + " " + idx + " " + v + ")"
}

func sortedKeys[V any](m map[string]V) []string {
	ks := make([]string, 0, len(m))
	for k := range m {
		ks = append(ks, k)
	}
	sort.Strings(ks)
	return ks
}

// idxAt: absolute index of element i of a slice with offset off. The addition is
// hidden behind an uninterpreted function (axiomatised in the prelude) so that
// quantifier patterns over slice elements match modulo equality rather than
// modulo the solver's arithmetic normal forms.
func idxAt(off, i string) string {
	if off == "0" {
		return i
	}
	return "(at " + off + " " + i + ")"
}
