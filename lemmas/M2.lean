import Mathlib.Data.Fintype.Card
import Mathlib.Data.Fintype.EquivFin

/-- M2 (DESIGN §3.5): the member list enumerates exactly the records of the node map.
`names` is the set of names in the map (`|nodeMap| = n`, lock invariant N4), `slot i` is the name of the record in
list slot `i` (`len(nodes) = n`), which is a name of the map (N2) and different slots hold different records, hence,
records being registered under their own names (N1/N2), different names (N3). Then every name of the map is the name
of some slot: `Members()` (a walk over the slots) sees every record of the map. -/
theorem list_enumerates_map {Name : Type} [DecidableEq Name] (n : ℕ) (names : Finset Name)
    (slot : Fin n → Name)
    (hN4 : names.card = n)
    (hN2 : ∀ i, slot i ∈ names)
    (hN3 : Function.Injective slot) :
    ∀ x ∈ names, ∃ i, slot i = x := by
  classical
  have himg : Finset.univ.image slot = names := by
    apply Finset.eq_of_subset_of_card_le
    · intro y hy
      rcases Finset.mem_image.mp hy with ⟨i, _, rfl⟩
      exact hN2 i
    · rw [Finset.card_image_of_injective _ hN3, Finset.card_univ, Fintype.card_fin, hN4]
  intro x hx
  rw [← himg] at hx
  rcases Finset.mem_image.mp hx with ⟨i, _, h⟩
  exact ⟨i, h⟩
