package memberlist

// Replay of finding F8 (property C07, obligation (*Memberlist).aliveNode/post/A-ev-join-sound):
// an alive about the local node that is processed after newMemberlist but before setAlive
// makes the node announce Join(self) while Members() does not list it, and setAlive then
// announces a second Join(self) with no leave in between.

import (
	"testing"
)

type f8Events struct{ log []string }

func (e *f8Events) NotifyJoin(n *Node)   { e.log = append(e.log, "join:"+n.Name) }
func (e *f8Events) NotifyLeave(n *Node)  { e.log = append(e.log, "leave:"+n.Name) }
func (e *f8Events) NotifyUpdate(n *Node) { e.log = append(e.log, "update:"+n.Name) }

func TestReplay_F8_SelfJoinBeforeBootstrap(t *testing.T) {
	ev := &f8Events{}
	c := DefaultLANConfig()
	c.Name = "self"
	c.BindAddr = "127.0.0.1"
	c.BindPort = 0
	c.Events = ev
	c.LogOutput = nil
	net := &MockNetwork{}
	c.Transport = net.NewTransport("self")
	m, err := newMemberlist(c)
	if err != nil {
		t.Fatal(err)
	}
	defer m.Shutdown()
	addr, port, _ := m.transport.FinalAdvertiseAddr("", 0)
	// a peer echoes an alive about us (e.g. from our previous life) before setAlive has run
	a := alive{Incarnation: 100, Node: "self", Addr: addr, Port: uint16(port), Vsn: c.BuildVsnArray()}
	m.aliveNode(&a, nil, false)
	listed := len(m.Members())
	joins := 0
	for _, e := range ev.log {
		if e == "join:self" {
			joins++
		}
	}
	if joins > 0 && listed == 0 {
		t.Errorf("VIOLATION C07: Join(self) delivered while Members() is empty: events=%v", ev.log)
	}
	if err := m.setAlive(); err != nil {
		t.Fatal(err)
	}
	joins = 0
	for _, e := range ev.log {
		if e == "join:self" {
			joins++
		}
	}
	if joins != 1 {
		t.Errorf("VIOLATION C07: %d Join(self) events without an intervening leave: events=%v", joins, ev.log)
	}
}
