package memberlist

// Replay of finding F1 (property C10; obligation (*TransmitLimitedQueue).Prune/nil/btree:q.tq):
// Prune on a queue that has never held a broadcast (or was Reset) dereferences the nil btree.
// Replay of finding F2 (property C10; obligation (*TransmitLimitedQueue).GetBroadcasts/lockinv/TransmitLimitedQueue.mu/Q-ids):
// the id generator restarts while retrieved items are held out for re-insertion, a later broadcast gets the key
// (transmits, length, id) of a queued one and silently replaces it: the replaced broadcast is never sent again and
// its Finished() never runs.

import (
	"testing"
)

type f1Broadcast struct {
	msg      []byte
	finished *int
}

func (b *f1Broadcast) Invalidates(other Broadcast) bool { return false }
func (b *f1Broadcast) Message() []byte                  { return b.msg }
func (b *f1Broadcast) Finished()                        { *b.finished++ }
func (b *f1Broadcast) UniqueBroadcast()                 {}

func TestReplay_F1_PruneUntouchedQueue(t *testing.T) {
	q := &TransmitLimitedQueue{RetransmitMult: 3, NumNodes: func() int { return 10 }}
	var p interface{}
	func() {
		defer func() { p = recover() }()
		q.Prune(0)
	}()
	if p != nil {
		t.Errorf("VIOLATION C10: Prune on an untouched queue panics: %v", p)
	}
	q.QueueBroadcast(&f1Broadcast{msg: []byte("x"), finished: new(int)})
	q.Reset()
	func() {
		defer func() { p = recover() }()
		q.Prune(0)
	}()
	if p != nil {
		t.Errorf("VIOLATION C10: Prune after Reset panics: %v", p)
	}
}

func TestReplay_F2_IdGeneratorRestart(t *testing.T) {
	q := &TransmitLimitedQueue{RetransmitMult: 3, NumNodes: func() int { return 100 }}
	finA, finB := new(int), new(int)
	a := &f1Broadcast{msg: []byte("aaaa"), finished: finA}
	q.QueueBroadcast(a) // id 1
	// retrieving the only item empties the tree for a moment (id generator restarts) and re-inserts it with id 1, transmits 1
	if got := q.GetBroadcasts(0, 100); len(got) != 1 {
		t.Fatalf("expected 1 message, got %d", len(got))
	}
	// a second broadcast of the same length gets id 1 again; once it has been handed out too, both items have
	// transmits 1, length 4, id 1, and re-inserting the second replaces the first
	b := &f1Broadcast{msg: []byte("bbbb"), finished: finB}
	q.QueueBroadcast(b)
	if got := q.GetBroadcasts(0, 4); len(got) != 1 || string(got[0]) != "bbbb" {
		t.Fatalf("expected the fresh message, got %q", got)
	}
	if n := q.NumQueued(); n != 2 {
		t.Errorf("VIOLATION C10: two broadcasts were queued and none completed, NumQueued() = %d (finished a=%d b=%d)", n, *finA, *finB)
	}
}
