package memberlist

// Replay of findings F3a/F3b (property C17; obligations (*Keyring).RemoveKey/index/k.keys[0] and (*Keyring).RemoveKey/post/frozen).
// F3a: RemoveKey on a ring without keys indexes k.keys[0] and panics.
// F3b: RemoveKey shifts the remaining keys inside the backing array, so a key list previously returned by
//      GetKeys() (which decryptPayload iterates outside the lock) is altered under its holder.

import (
	"bytes"
	"testing"
)

func TestReplay_F3a_RemoveKeyEmptyRing(t *testing.T) {
	k, err := NewKeyring(nil, nil)
	if err != nil {
		t.Fatal(err)
	}
	var panicked interface{}
	func() {
		defer func() { panicked = recover() }()
		_ = k.RemoveKey(bytes.Repeat([]byte{7}, 16))
	}()
	if panicked != nil {
		t.Errorf("VIOLATION C17: RemoveKey on an empty keyring panics: %v", panicked)
	}
}

func TestReplay_F3b_RemoveKeyAltersReturnedList(t *testing.T) {
	p, a, b := bytes.Repeat([]byte{1}, 16), bytes.Repeat([]byte{2}, 16), bytes.Repeat([]byte{3}, 16)
	k, err := NewKeyring([][]byte{a, b}, p)
	if err != nil {
		t.Fatal(err)
	}
	held := k.GetKeys() // e.g. the list decryptPayload is iterating
	snapshot := make([][]byte, len(held))
	copy(snapshot, held)
	if err := k.RemoveKey(a); err != nil {
		t.Fatal(err)
	}
	for i := range held {
		if !bytes.Equal(held[i], snapshot[i]) {
			t.Errorf("VIOLATION C17: key list returned earlier was altered at index %d: %v -> %v", i, snapshot[i][0], held[i][0])
		}
	}
}
