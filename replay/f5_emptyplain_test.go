package memberlist

// Replay of finding F5 (property C13; obligation (*Memberlist).readStream/index/decryptRemoteState()[0]):
// a stream frame whose authenticated plaintext is empty (sealed by any holder of an installed key, or
// obtained from genuine version-1 traffic through the unauthenticated version byte) makes readStream
// index plain[0] out of range and panic in the stream handler goroutine.

import (
	"bytes"
	"encoding/binary"
	"net"
	"testing"
	"time"
)

func TestReplay_F5_EmptyPlaintextStream(t *testing.T) {
	key := []byte{0, 1, 2, 3, 4, 5, 6, 7, 8, 9, 10, 11, 12, 13, 14, 15}
	kr, err := NewKeyring(nil, key)
	if err != nil {
		t.Fatal(err)
	}
	c := DefaultLANConfig()
	c.Name = "self"
	c.BindAddr = "127.0.0.1"
	c.Keyring = kr
	mn := &MockNetwork{}
	c.Transport = mn.NewTransport("self")
	c.LogOutput = nil
	m, err := newMemberlist(c)
	if err != nil {
		t.Fatal(err)
	}
	defer m.Shutdown()

	// frame: [encryptMsg][uint32 length][version 1 | nonce | seal("") ] with AAD = type byte + length + label
	var frame bytes.Buffer
	frame.WriteByte(byte(encryptMsg))
	size := make([]byte, 4)
	binary.BigEndian.PutUint32(size, uint32(encryptedLength(1, 0)))
	frame.Write(size)
	aad := append([]byte{}, frame.Bytes()[:5]...)
	if err := encryptPayload(1, key, []byte{}, aad, &frame); err != nil {
		t.Fatal(err)
	}

	client, server := net.Pipe()
	defer client.Close()
	defer server.Close()
	go func() {
		client.SetDeadline(time.Now().Add(2 * time.Second))
		client.Write(frame.Bytes())
	}()
	server.SetDeadline(time.Now().Add(2 * time.Second))
	var panicked interface{}
	func() {
		defer func() { panicked = recover() }()
		_, _, _, err = m.readStream(server, "")
	}()
	if panicked != nil {
		t.Errorf("VIOLATION C13: readStream panicked on an authenticated empty frame: %v", panicked)
	} else if err == nil {
		t.Errorf("VIOLATION C13: empty frame accepted")
	}
}
