package memberlist

// Replay of finding F7 (property C11; obligations (*Memberlist).sendMsg/site/call:(*Memberlist).rawSendMsgPacket/fits,
// (*Memberlist).gossip/site/.../fits and (*Memberlist).sendMsg/pre/makeCompoundMessage/count):
//  (a) the piggyback budget of sendMsg forgets the 2-byte length entry of the message itself and the 5-byte CRC
//      header rawSendMsgPacket adds for peers speaking protocol >= 5, so the packet on the wire exceeds UDPBufferSize;
//  (b) the gossip budget forgets the CRC header;
//  (c) with more than 254 queued broadcasts sendMsg builds one compound message whose count byte wraps, and the
//      receiver unpacks a fraction of the parts.

import (
	"fmt"
	"net"
	"sync"
	"testing"
	"time"
)

type f7RecTransport struct {
	NodeAwareTransport
	mu   sync.Mutex
	pkts [][]byte
}

func (r *f7RecTransport) WriteToAddress(b []byte, a Address) (time.Time, error) {
	r.mu.Lock()
	r.pkts = append(r.pkts, append([]byte(nil), b...))
	r.mu.Unlock()
	return time.Now(), nil
}

func f7Node(t *testing.T, udp int) (*Memberlist, *f7RecTransport) {
	c := DefaultLANConfig()
	c.Name = "self"
	c.BindAddr = "127.0.0.1"
	c.UDPBufferSize = udp
	c.EnableCompression = false
	mn := &MockNetwork{}
	c.Transport = mn.NewTransport("self")
	c.LogOutput = nil
	m, err := newMemberlist(c)
	if err != nil {
		t.Fatal(err)
	}
	rec := &f7RecTransport{NodeAwareTransport: m.transport}
	m.transport = rec
	// a peer that understands the CRC header
	peer := &nodeState{Node: Node{Name: "10.0.0.9", Addr: net.ParseIP("10.0.0.9"), Port: 7946, PMin: 1, PMax: 5, PCur: 2, DMax: 5}, State: StateAlive}
	m.nodeLock.Lock()
	m.nodeMap["10.0.0.9"] = peer
	m.nodes = append(m.nodes, peer)
	m.nodeLock.Unlock()
	return m, rec
}

func TestReplay_F7_PiggybackBudget(t *testing.T) {
	const udp = 1400
	for fill := 1; fill <= 40; fill++ {
		m, rec := f7Node(t, udp)
		for i := 0; i < 64; i++ {
			m.broadcasts.QueueBroadcast(&memberlistBroadcast{node: fmt.Sprintf("n%d", i), msg: make([]byte, fill+i%7), notify: nil})
		}
		if err := m.sendMsg(Address{Addr: "10.0.0.9:7946", Name: "10.0.0.9"}, make([]byte, 30)); err != nil {
			t.Fatal(err)
		}
		for _, p := range rec.pkts {
			if len(p) > udp {
				t.Errorf("VIOLATION C11: sendMsg put %d bytes on the wire, UDPBufferSize is %d (broadcast size %d)", len(p), udp, fill)
				m.Shutdown()
				return
			}
		}
		m.Shutdown()
	}
}

func TestReplay_F7_GossipBudget(t *testing.T) {
	const udp = 1400
	for fill := 1; fill <= 40; fill++ {
		m, rec := f7Node(t, udp)
		for i := 0; i < 64; i++ {
			m.broadcasts.QueueBroadcast(&memberlistBroadcast{node: fmt.Sprintf("n%d", i), msg: make([]byte, fill+i%7), notify: nil})
		}
		m.gossip()
		for _, p := range rec.pkts {
			if len(p) > udp {
				t.Errorf("VIOLATION C11: gossip put %d bytes on the wire, UDPBufferSize is %d (broadcast size %d)", len(p), udp, fill)
				m.Shutdown()
				return
			}
		}
		m.Shutdown()
	}
}

func TestReplay_F7_PiggybackCount(t *testing.T) {
	m, rec := f7Node(t, 1400)
	defer m.Shutdown()
	const queued = 300
	for i := 0; i < queued; i++ {
		m.broadcasts.QueueBroadcast(&memberlistBroadcast{node: fmt.Sprintf("n%d", i), msg: []byte{byte(i)}, notify: nil})
	}
	if err := m.sendMsg(Address{Addr: "10.0.0.9:7946", Name: "10.0.0.9"}, []byte{byte(nackRespMsg)}); err != nil {
		t.Fatal(err)
	}
	got := 0
	for _, p := range rec.pkts {
		if messageType(p[0]) == hasCrcMsg {
			p = p[5:]
		}
		if messageType(p[0]) != compoundMsg {
			got++
			continue
		}
		trunc, parts, err := decodeCompoundMessage(p[1:])
		if err != nil || trunc != 0 {
			t.Errorf("VIOLATION C11: receiver cannot unpack the compound message: trunc=%d err=%v", trunc, err)
		}
		got += len(parts)
	}
	if got != queued+1 {
		t.Errorf("VIOLATION C11: %d messages packed, the receiver unpacks %d", queued+1, got)
	}
}
