package memberlist

// Replay of finding F11 (property C20; obligation (*Memberlist).schedule/post/stop-recorded):
// with probing and gossip disabled (ProbeInterval = 0, GossipInterval = 0) and push/pull enabled, schedule() starts
// the push/pull goroutine with a fresh stop channel but records that channel only "if we made any tickers"; the
// push/pull trigger is not a ticker, so deschedule() (called by Shutdown) finds nothing to stop: the goroutine keeps
// running and keeps dialling peers after Shutdown has returned.

import (
	"net"
	"sync/atomic"
	"testing"
	"time"
)

type f11Transport struct {
	NodeAwareTransport
	dials atomic.Int32
}

func (t *f11Transport) DialAddressTimeout(a Address, timeout time.Duration) (net.Conn, error) {
	t.dials.Add(1)
	return t.NodeAwareTransport.DialAddressTimeout(a, timeout)
}

func TestReplay_F11_PushPullSurvivesShutdown(t *testing.T) {
	c := DefaultLANConfig()
	c.Name = "self"
	c.BindAddr = "127.0.0.1"
	c.ProbeInterval = 0
	c.GossipInterval = 0
	c.PushPullInterval = 5 * time.Millisecond
	mn := &MockNetwork{}
	c.Transport = mn.NewTransport("self")
	c.LogOutput = nil
	m, err := newMemberlist(c)
	if err != nil {
		t.Fatal(err)
	}
	tr := &f11Transport{NodeAwareTransport: m.transport}
	m.transport = tr
	if err := m.setAlive(); err != nil {
		t.Fatal(err)
	}
	// a peer to push/pull with
	m.aliveNode(&alive{Incarnation: 1, Node: "peer", Addr: net.ParseIP("127.0.0.2"), Port: 7946, Vsn: m.config.BuildVsnArray()}, nil, false)
	m.schedule()
	time.Sleep(60 * time.Millisecond)
	if tr.dials.Load() == 0 {
		t.Skip("push/pull did not start; nothing to observe")
	}
	if err := m.Shutdown(); err != nil {
		t.Fatal(err)
	}
	time.Sleep(30 * time.Millisecond) // let an attempt that was already in flight finish
	before := tr.dials.Load()
	time.Sleep(120 * time.Millisecond)
	if after := tr.dials.Load(); after != before {
		t.Errorf("VIOLATION C20: %d push/pull attempts were started after Shutdown returned (background activity did not end)", after-before)
	}
}
