package memberlist

// Replay of finding F9 (property C08; obligation (*Memberlist).Leave/site/call:(*Memberlist).deadNode/departure-current):
// Leave reads its own incarnation under nodeLock, releases the lock, and only then calls deadNode with that
// incarnation. An accusation about the local node processed in between (a suspect message at the current incarnation:
// the node is still alive in its own view and refutes by raising its incarnation; or a third party's dead claim at a
// higher incarnation, which is accepted because the leave flag is already up) makes the departure claim stale:
// deadNode drops it, the node never records itself as left, no departure is broadcast and Leave runs into its
// timeout (or blocks for ever with timeout 0) although another member is alive.
// The window is forced with the schedule hook right after Leave releases nodeLock.

import (
	"net"
	"testing"
	"time"
)

func TestReplay_F9_LeaveRacesAccusation(t *testing.T) {
	for _, accuse := range []string{"suspect", "dead-by-other"} {
		c := DefaultLANConfig()
		c.Name = "self"
		c.BindAddr = "127.0.0.1"
		mn := &MockNetwork{}
		c.Transport = mn.NewTransport("self")
		c.LogOutput = nil
		m, err := newMemberlist(c)
		if err != nil {
			t.Fatal(err)
		}
		if err := m.setAlive(); err != nil {
			t.Fatal(err)
		}
		// one live peer, so that Leave has somebody to tell
		m.aliveNode(&alive{Incarnation: 1, Node: "peer", Addr: net.ParseIP("127.0.0.2"), Port: 7946, Vsn: m.config.BuildVsnArray()}, nil, false)
		fired := false
		gvcSchedHook = func(point string) {
			if point != "Leave:after-read" || fired {
				return
			}
			fired = true
			inc := m.incarnation.Load()
			if accuse == "suspect" {
				m.suspectNode(&suspect{Incarnation: inc, Node: "self", From: "peer"})
			} else {
				m.deadNode(&dead{Incarnation: inc + 3, Node: "self", From: "peer"})
			}
		}
		// keep gossiping so that the departure, once queued, does go out
		stop := make(chan struct{})
		go func() {
			for {
				select {
				case <-stop:
					return
				case <-time.After(5 * time.Millisecond):
					m.gossip()
				}
			}
		}()
		err = m.Leave(2 * time.Second)
		close(stop)
		gvcSchedHook = nil
		m.nodeLock.RLock()
		st := m.nodeMap["self"].State
		m.nodeLock.RUnlock()
		if err != nil || st != StateLeft {
			t.Errorf("VIOLATION C08 (%s in the window): Leave returned %v and the local record is in state %v, not left", accuse, err, st)
		}
		m.Shutdown()
	}
}
