package memberlist

// Replay of finding F4 (properties C13, C14; obligations .../in:pkcs7decode/slice/... and
// .../in:pkcs7decode/panic/...): the encryption-version byte is outside the authenticated
// data, so flipping it 1->0 on genuine version-1 ciphertext makes decryptPayload strip
// "padding" from an unpadded plaintext. With a last byte larger than the message length the
// slice bound is negative and the receiver panics.

import (
	"bytes"
	"testing"
)

func f4Decrypt(t *testing.T, plain []byte) (out []byte, err error, panicked interface{}) {
	key := []byte{0, 1, 2, 3, 4, 5, 6, 7, 8, 9, 10, 11, 12, 13, 14, 15}
	var buf bytes.Buffer
	if e := encryptPayload(1, key, plain, []byte("label"), &buf); e != nil {
		t.Fatal(e)
	}
	ct := buf.Bytes()
	ct[0] = 0 // flip the unauthenticated version byte
	defer func() { panicked = recover() }()
	out, err = decryptPayload([][]byte{key}, ct, []byte("label"))
	return
}

func TestReplay_F4_VersionByteFlipPanics(t *testing.T) {
	msg := make([]byte, 20) // >= 16 bytes so that the tampered packet passes the version-0 length check
	msg[19] = 0xff          // read as a pad length of 255 > len(msg)
	if _, _, p := f4Decrypt(t, msg); p != nil {
		t.Errorf("VIOLATION C13: decryptPayload panicked on tampered ciphertext: %v", p)
	}
}
