package memberlist

// Replay of finding F6 (property C20).
//  - LocalNode / UpdateNode (obligations (*Memberlist).LocalNode/nil/m.nodeMap[m.config.Name], (*Memberlist).UpdateNode/nil/...):
//    after Leave the node's own departed record ages out (GossipToTheDeadTime) and the next probe wrap reaps it;
//    both calls then dereference a nil record.
//  - Leave (obligation (*Memberlist).Leave/nil/m.nodeMap[m.config.Name]): Leave read state.Incarnation before looking at
//    the `ok` of the map lookup; if the local record is gone by the time Leave takes nodeLock (a dead claim about us is
//    accepted once the leave flag is up, and the reaper may then remove the record) it dereferences nil. The window is
//    forced with the schedule hook right after m.leave.Store(1).

import (
	"testing"
	"time"
)

func f6Node(t *testing.T) *Memberlist {
	c := DefaultLANConfig()
	c.Name = "self"
	c.BindAddr = "127.0.0.1"
	mn := &MockNetwork{}
	c.Transport = mn.NewTransport("self")
	c.LogOutput = nil
	c.GossipToTheDeadTime = time.Millisecond
	m, err := newMemberlist(c)
	if err != nil {
		t.Fatal(err)
	}
	if err := m.setAlive(); err != nil {
		t.Fatal(err)
	}
	return m
}

func TestReplay_F6_QueryAfterLeaveAndReap(t *testing.T) {
	m := f6Node(t)
	defer m.Shutdown()
	if err := m.Leave(time.Second); err != nil {
		t.Fatal(err)
	}
	time.Sleep(5 * time.Millisecond)
	m.resetNodes() // what probe() does when its cursor wraps
	for name, f := range map[string]func(){"LocalNode": func() { _ = m.LocalNode() }, "UpdateNode": func() { _ = m.UpdateNode(time.Millisecond) }} {
		var p interface{}
		func() {
			defer func() { p = recover() }()
			f()
		}()
		if p != nil {
			t.Errorf("VIOLATION C20: %s after Leave + reaping panics: %v", name, p)
		}
	}
}

func TestReplay_F6_LeaveRacesReaper(t *testing.T) {
	m := f6Node(t)
	defer m.Shutdown()
	gvcSchedHook = func(point string) {
		if point != "Leave:after-flag" {
			return
		}
		// a peer's dead claim about us is accepted now that the leave flag is up ...
		d := dead{Incarnation: 100, Node: "self", From: "peer"}
		m.deadNode(&d)
		// ... and the reaper runs once the record has aged
		time.Sleep(5 * time.Millisecond)
		m.resetNodes()
	}
	defer func() { gvcSchedHook = nil }()
	var p interface{}
	func() {
		defer func() { p = recover() }()
		_ = m.Leave(time.Millisecond)
	}()
	if p != nil {
		t.Errorf("VIOLATION C20: Leave panics when its own record was reaped in the window after the leave flag is set: %v", p)
	}
}
