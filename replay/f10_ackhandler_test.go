package memberlist

// Replay of finding F10 (properties C13/C19/C20; obligation (*Memberlist).setAckHandler/lockinv/Memberlist.ackLock/AH2):
// setAckHandler publishes the handler in ackHandlers and releases ackLock *before* it assigns ah.timer.
// An ack carrying that sequence number which is processed in the window makes invokeAckHandler call
// Stop on a nil *time.Timer. The interleaving is forced through a hook that the replay overlay inserts
// mechanically right after the Unlock in setAckHandler (tools/replay_sched.sh); nothing is edited in the repository.

import (
	"testing"
	"time"
)

func TestReplay_F10_AckInPublicationWindow(t *testing.T) {
	c := DefaultLANConfig()
	c.Name = "self"
	c.BindAddr = "127.0.0.1"
	net := &MockNetwork{}
	c.Transport = net.NewTransport("self")
	c.LogOutput = nil
	m, err := newMemberlist(c)
	if err != nil {
		t.Fatal(err)
	}
	defer m.Shutdown()
	var panicked interface{}
	gvcSchedHook = func(point string) {
		if point != "setAckHandler:after-unlock" {
			return
		}
		defer func() { panicked = recover() }()
		m.invokeAckHandler(ackResp{SeqNo: 7}, time.Now())
	}
	defer func() { gvcSchedHook = nil }()
	m.setAckHandler(7, func([]byte, time.Time) {}, time.Hour)
	if panicked != nil {
		t.Errorf("VIOLATION C13/C19: an ack processed between publication of the handler and assignment of its timer panics: %v", panicked)
	}
}
